#!/usr/bin/env python3
"""Orchestrator for the TLA+-based conformance checks of Jij-Inc/ommx (see DESIGN.md).

  python3 check.py --setup
  python3 check.py <Cxx> --tier quick|thorough
  python3 check.py <Cxx> --replay work/<Cxx>/replay-....json

exit 0: property held on everything explored; 1: VIOLATION line printed; 2: tool error / timeout.
TLC is the judge: this script only moves files between TLC and the Rust harness and maps TLC's verdicts.
"""
import json, os, re, subprocess, sys, time, shutil, glob, hashlib
from concurrent.futures import ThreadPoolExecutor

ROOT = os.path.dirname(os.path.abspath(__file__))
SPEC = os.path.join(ROOT, "spec")
# The registered commands always check /repo.  For experiments (tools/run_seeded.py) VERIF_REPO may name another
# checkout of the repository: the harness is then built in a scratch copy against that checkout, and scratch files
# and evidence go to work/alt/ so that nothing of the real run is touched.
REPO = os.environ.get("VERIF_REPO", "/repo")
ALT = REPO != "/repo"
WORK = os.path.join(ROOT, "work", "alt") if ALT else os.path.join(ROOT, "work")
HARNESS_SRC = os.path.join(ROOT, "harness")
HARNESS = os.path.join(WORK, "harness") if ALT else HARNESS_SRC
BIN = os.path.join(HARNESS, "target", "debug", "ommx-conform")
EVIDENCE_DIR = os.path.join(WORK, "evidence") if ALT else os.path.join(ROOT, "evidence")
sys.path.insert(0, ROOT)
from plan import PLAN, OWN  # noqa: E402


class ToolError(Exception):
    pass


LIFTABLE = {"eval_fn", "partial_fn", "subst_fn", "arith", "fn_info", "ctor", "eval_bound", "content_factor"}


def log(*a):
    print(*a, flush=True)


def run(cmd, timeout, env=None, cwd=None, stdout=None):
    e = dict(os.environ)
    if env:
        e.update(env)
    try:
        return subprocess.run(cmd, timeout=timeout, env=e, cwd=cwd, stdout=stdout or subprocess.PIPE,
                              stderr=subprocess.STDOUT, text=True)
    except subprocess.TimeoutExpired:
        raise ToolError("timeout: " + " ".join(cmd[:6]))


# ----------------------------------------------------------------------------------------- build
def build_harness():
    t = time.time()
    if ALT:
        os.makedirs(HARNESS, exist_ok=True)
        for sub in ("src", ".cargo"):
            shutil.rmtree(os.path.join(HARNESS, sub), ignore_errors=True)
            shutil.copytree(os.path.join(HARNESS_SRC, sub), os.path.join(HARNESS, sub))
        toml = open(os.path.join(HARNESS_SRC, "Cargo.toml")).read().replace('path = "/repo/rust/ommx"', f'path = "{REPO}/rust/ommx"')
        open(os.path.join(HARNESS, "Cargo.toml"), "w").write(toml)
        shutil.copy(os.path.join(REPO, "Cargo.lock"), os.path.join(HARNESS, "Cargo.lock"))
        # the drivers include tools/arith_defined.json relative to the crate
        os.makedirs(os.path.join(WORK, "tools"), exist_ok=True)
        shutil.copy(os.path.join(ROOT, "tools", "arith_defined.json"), os.path.join(WORK, "tools", "arith_defined.json"))
    lock_src = os.path.join(REPO, "Cargo.lock")
    lock_dst = os.path.join(HARNESS, "Cargo.lock")
    if not os.path.exists(lock_dst):
        shutil.copy(lock_src, lock_dst)
    subprocess.run([sys.executable, os.path.join(ROOT, "tools", "gen_arith.py")],
                   stdout=open(os.path.join(HARNESS, "src", "arith_table.rs"), "w"), check=True)
    env = {"CARGO_NET_OFFLINE": "true"}
    r = run(["cargo", "build", "--offline"], 1800, env=env, cwd=HARNESS)
    if r.returncode != 0:
        log(r.stdout[-4000:])
        raise ToolError("harness build failed (the working tree of /repo does not compile with the harness)")
    return time.time() - t


# ----------------------------------------------------------------------------------------- TLC
SCHEMA_PATH = os.path.join(WORK, "schemaP.json")


def write_schema():
    """the published schema (proto/ommx/v1/*.proto of the working tree) as a table for Wire.tla"""
    sys.path.insert(0, os.path.join(ROOT, "tools"))
    import schema_tables
    os.makedirs(WORK, exist_ok=True)
    json.dump(schema_tables.table_P(REPO), open(SCHEMA_PATH, "w"))


def tlc_env(extra_java=""):
    return {"JAVA_TOOL_OPTIONS": f"-Xss1g -DTLA-Library={SPEC}:{SPEC}/gen:{SPEC}/mc {extra_java}".strip(),
            "SCHEMA": SCHEMA_PATH}


TLC_STATS = re.compile(r"(\d+) states generated, (\d+) distinct states found")


def tlc(module_path, cfg, metadir, workers=8, timeout=1800, env=None, xmx="4g", extra=()):
    os.makedirs(metadir, exist_ok=True)
    e = tlc_env(f"-Xmx{xmx}")
    if env:
        e.update(env)
    cmd = ["tlc", "-workers", str(workers), "-metadir", metadir, "-cleanup", "-noGenerateSpecTE",
           *extra, "-config", cfg, os.path.basename(module_path)]
    r = run(cmd, timeout, env=e, cwd=os.path.dirname(module_path))
    out = r.stdout
    shutil.rmtree(metadir, ignore_errors=True)
    m = TLC_STATS.findall(out)
    gen, dist = (int(m[-1][0]), int(m[-1][1])) if m else (0, 0)
    return r.returncode, out, gen, dist


def model_check(name, module, cfg, wd, workers=8, timeout=1800):
    """M: the property as an invariant of the specification itself. A failure here is a tool error."""
    t = time.time()
    rc, out, gen, dist = tlc(os.path.join(SPEC, "mc", module), cfg, os.path.join(wd, "md_" + name), workers, timeout)
    if rc != 0 or "Model checking completed. No error has been found" not in out:
        open(os.path.join(wd, f"mc_{name}.out"), "w").write(out)
        raise ToolError(f"model checking of the specification failed: {name} (see {wd}/mc_{name}.out)")
    return {"name": name, "states": dist, "transitions": gen, "wall_s": round(time.time() - t, 1)}


def prove(module, wd):
    """P: lemmas the specification's operators rely on for inputs beyond the model-checked bounds, checked by tlapm."""
    t = time.time()
    src = os.path.join(SPEC, "proofs", module)
    d = os.path.join(wd, "proofs")
    os.makedirs(d, exist_ok=True)
    shutil.copy(src, d)
    r = run(["tlapm", "--threads", "4", module], 600, cwd=d)
    out = r.stdout
    m = re.search(r"All (\d+) obligations? proved", out)
    shutil.rmtree(d, ignore_errors=True)
    if r.returncode != 0 or not m:
        open(os.path.join(wd, f"proof_{module}.out"), "w").write(out)
        raise ToolError(f"proof of {module} failed (see {wd}/proof_{module}.out)")
    return {"name": "tlapm:" + module, "obligations_proved": int(m.group(1)), "states": 0, "transitions": 0, "wall_s": round(time.time() - t, 1)}


VEC = re.compile(r'^("VEC .*")$')


def generate(name, module, cfg, wd, src, workers=8, timeout=1800, extra=(), env=None):
    """A: TLC prints behaviours; returns the list of input events (dicts)."""
    t = time.time()
    rc, out, gen, dist = tlc(os.path.join(SPEC, "gen", module), cfg, os.path.join(wd, "md_" + name), workers, timeout,
                             extra=extra, env=env)
    if rc != 0 or ("Model checking completed" not in out and "Finished in" not in out):
        open(os.path.join(wd, f"gen_{name}.out"), "w").write(out)
        raise ToolError(f"generator failed: {name} (see {wd}/gen_{name}.out)")
    vecs = []
    for line in out.splitlines():
        m = VEC.match(line)
        if m:
            v = json.loads(json.loads(m.group(1))[4:])
            v["case"] = f"{name}-{len(vecs) + 1}"
            v["src"] = src
            vecs.append(v)
    if not vecs:
        open(os.path.join(wd, f"gen_{name}.out"), "w").write(out)
        raise ToolError(f"generator produced no vectors: {name}")
    return vecs, {"name": name, "states": dist, "transitions": gen, "vectors": len(vecs),
                  "wall_s": round(time.time() - t, 1)}


# ----------------------------------------------------------------------------------------- harness
def harness_replay(inp, outp, jobs=8, timeout=3600, per_event_ms=20000):
    r = run([BIN, "replay", inp, outp, "--jobs", str(jobs), "--timeout-ms", str(per_event_ms)], timeout, cwd=ROOT)
    if r.returncode != 0:
        raise ToolError("harness replay failed: " + r.stdout[-2000:])


def harness_gen(group, seed, n, outp, timeout=600):
    r = run([BIN, "gen", group, "--seed", str(seed), "--n", str(n), outp], timeout, cwd=ROOT)
    if r.returncode != 0:
        raise ToolError("harness gen failed: " + r.stdout[-2000:])


# ----------------------------------------------------------------------------------------- judge
BAD = re.compile(r'^"BAD (\d+) ([\w,]+)"$')
DONE = re.compile(r'^<<"DONE", (\d+), (\d+)>>$')


def judge_chunk(args):
    path, idx, wd = args
    md = os.path.join(wd, f"md_judge_{idx}")
    rc, out, gen, dist = tlc(os.path.join(SPEC, "Judge.tla"), "Judge.cfg", md, workers=1, timeout=3600,
                             env={"TRACE": path}, xmx="3g",
                             extra=())
    bads, done = [], None
    for line in out.splitlines():
        m = BAD.match(line)
        if m:
            bads.append((int(m.group(1)), "", m.group(2).split(",")))
        m = DONE.match(line)
        if m:
            done = (int(m.group(1)), int(m.group(2)))
    if done is not None and done[1] != len(bads):
        open(os.path.join(wd, f"judge_{idx}.out"), "w").write(out)
        raise ToolError(f"validator reported {done[1]} rejected events but {len(bads)} BAD lines were parsed (chunk {idx})")
    if done is None or rc != 0:
        open(os.path.join(wd, f"judge_{idx}.out"), "w").write(out)
        raise ToolError(f"trace validation aborted on chunk {idx} (see {wd}/judge_{idx}.out)")
    return idx, bads, done, dist, gen


def judge(obs_path, wd, chunk=4000, par=12):
    """Validate all recorded events with TLC (Judge.tla). Returns (events, bad list [(event, failed clauses)])."""
    lines = [l for l in open(obs_path) if l.strip()]
    chunks = [lines[i:i + chunk] for i in range(0, len(lines), chunk)]
    paths = []
    for i, c in enumerate(chunks):
        p = os.path.join(wd, f"chunk_{i}.ndjson")
        open(p, "w").writelines(c)
        paths.append((p, i, wd))
    bad, states, trans = [], 0, 0
    with ThreadPoolExecutor(max_workers=par) as ex:
        for idx, bads, done, dist, gen in ex.map(judge_chunk, paths):
            if done[0] != len(chunks[idx]):
                raise ToolError(f"validator consumed {done[0]} of {len(chunks[idx])} events in chunk {idx}")
            states += dist
            trans += gen
            for (l, case, clauses) in bads:
                bad.append((json.loads(chunks[idx][l - 1]), clauses))
    for p, _, _ in paths:
        os.remove(p)
    return len(lines), bad, states, trans


# ----------------------------------------------------------------------------------------- verdicts
def load_known():
    return json.load(open(os.path.join(ROOT, "known_findings.json")))


def owned(prop, ev, clauses):
    own = OWN.get(prop, {})
    o = own.get(ev, own.get("*"))
    if o is None:
        return []
    if o == "*":
        return list(clauses)
    if isinstance(o, dict):      # {"except": [...]}: every clause of the action but the listed extension clauses
        return [c for c in clauses if c not in o["except"]]
    return [c for c in clauses if c in o]


def matches(entry, prop, e, clauses):
    if entry["property"] != prop:
        return False
    if "ev" in entry and entry["ev"] != e.get("ev"):
        return False
    if "clauses" in entry and not set(clauses) <= set(entry["clauses"]):
        return False
    w = entry.get("where")
    if w:
        try:
            return bool(eval(w, {"__builtins__": {"len": len, "any": any, "all": all, "set": set, "str": str, "int": int, "abs": abs, "sorted": sorted, "min": min, "max": max}}, {"e": e}))
        except Exception:
            return False
    return True


def small(e, limit=1500):
    s = json.dumps(e, separators=(",", ":"))
    return e if len(s) <= limit else {"ev": e.get("ev"), "case": e.get("case"), "truncated": s[:limit]}


def check(prop, tier, seed):
    t0 = time.time()
    plan = PLAN[prop]
    wd = os.path.join(WORK, prop)
    shutil.rmtree(wd, ignore_errors=True)
    os.makedirs(wd, exist_ok=True)
    build_s = build_harness()
    write_schema()
    quick = tier == "quick"
    mc_stats, gen_stats = [], []
    # M
    for m in plan.get("mc", []):
        if m.get("tier", "quick") == "thorough" and quick:
            continue
        mc_stats.append(model_check(m["name"], m["module"], m["cfg_quick"] if quick else m.get("cfg_thorough", m["cfg_quick"]), wd,
                                    workers=m.get("workers", 8), timeout=m.get("timeout", 3000)))
    for pm in plan.get("proofs", []):
        mc_stats.append(prove(pm, wd))
    # A
    inputs = []
    for g in plan.get("gen", []):
        if g.get("tier", "quick") == "thorough" and quick:
            continue
        cfg = g["cfg_quick"] if quick else g.get("cfg_thorough", g["cfg_quick"])
        extra = ("-seed", str(seed)) if g.get("seeded") else ()
        genv = None
        if g.get("models"):
            # abstract models drawn by the seeded driver; the specification renders them and gives their meaning
            grp, nq, nt = g["models"]
            mp = os.path.join(wd, f"models_{g['name']}.ndjson")
            harness_gen(grp, seed, nq if quick else nt, mp)
            genv = {"MODELS": mp}
        vecs, st = generate(g["name"], g["module"], cfg, wd, "gen", workers=g.get("workers", 8), extra=extra, env=genv)
        if genv:
            for v in vecs:
                v["src"] = "drive+gen"
        post = g.get("post")
        if post:
            vecs = post(vecs, wd, quick, seed)
        gen_stats.append(st)
        if plan.get("unique_names"):
            for i, v in enumerate(vecs):
                if "name" in v.get("in", {}):
                    v["in"]["name"] = f"{v['in']['name']}{i}"
        inputs.extend(vecs)
    # B
    for d in plan.get("drive", []):
        n = d["n_quick"] if quick else d["n_thorough"]
        p = os.path.join(wd, f"drive_{d['group']}.ndjson")
        harness_gen(d["group"], seed, n, p)
        k = 0
        for l in open(p):
            if l.strip():
                v = json.loads(l)
                v.setdefault("src", "drive")
                inputs.append(v)
                k += 1
        gen_stats.append({"name": "drive_" + d["group"], "vectors": k, "seed": seed})
        os.remove(p)
    for f in plan.get("static", []):
        inputs.extend(f(wd, quick, seed))
    if plan.get("lift_every"):
        # relabelled copies of function-level events: same vector, variable ids mapped (by the harness, order-preserving)
        # into the 64-bit range; the judge sees the small ids and must reach the same verdict ("any IDs")
        k, extra_in = 0, []
        for v in inputs:
            if v.get("ev") in LIFTABLE:
                k += 1
                if k % plan["lift_every"] == 0:
                    w = json.loads(json.dumps(v))
                    w["in"]["lift"] = "ABCDE"[(k // plan["lift_every"]) % 5]
                    w["case"] = str(w.get("case", "")) + "-lift" + w["in"]["lift"]
                    extra_in.append(w)
        inputs.extend(extra_in)
        gen_stats.append({"name": "lifted_copies", "vectors": len(extra_in)})
    if plan.get("lift_inst_every"):
        # the same relabelling for the instance-level actions evaluate / commute / evaluate_samples (modes A-D)
        k, extra_in = 0, []
        for v in inputs:
            if v.get("ev") in ("evaluate", "commute", "evaluate_samples") and "lift" not in v.get("in", {}):
                k += 1
                if k % plan["lift_inst_every"] == 0:
                    w = json.loads(json.dumps(v))
                    w["in"]["lift"] = "ABCD"[(k // plan["lift_inst_every"]) % 4]
                    w["case"] = str(w.get("case", "")) + "-lift" + w["in"]["lift"]
                    extra_in.append(w)
        inputs.extend(extra_in)
        gen_stats.append({"name": "lifted_evaluate_copies", "vectors": len(extra_in)})
    if plan.get("rescale_every"):
        # rescaled copies of  number x function  products (see exec.rs): number / 2^k, coefficients x 2^k, k = +-60
        k, extra_in = 0, []
        for v in inputs:
            i = v.get("in", {})
            if v.get("ev") == "arith" and i.get("op") == "mul" and "lift" not in i:
                ks = (i["a"].get("k"), i.get("b", {}).get("k"))
                if ks.count("num") == 1 and (set(ks) - {"num"}) <= {"lin", "quad", "poly", "func"}:
                    k += 1
                    if k % plan["rescale_every"] == 0:
                        w = json.loads(json.dumps(v))
                        w["in"]["rescale"] = 60 if (k // plan["rescale_every"]) % 2 else -60
                        w["case"] = str(w.get("case", "")) + f"-rescale{w['in']['rescale']}"
                        extra_in.append(w)
            # interval scaling  [lo, hi] * k : k / 2^60, finite ends x 2^60 (k = 0 is outside "scaling by a non-zero number")
            if v.get("ev") == "bound_op" and i.get("op") == "scale" and "rescale" not in i and i.get("k") not in ([0, 1], None):
                k += 1
                if k % plan["rescale_every"] == 0:
                    w = json.loads(json.dumps(v))
                    w["in"]["rescale"] = 60
                    w["case"] = str(w.get("case", "")) + "-rescale60"
                    extra_in.append(w)
        inputs.extend(extra_in)
        gen_stats.append({"name": "rescaled_copies", "vectors": len(extra_in)})
    if plan.get("negzero_every"):
        # signed-zero copies: every zero of the vector is handed to the SDK as -0.0 (see exec.rs); same judged event
        NEGZEROABLE = {"bound_op", "eval_bound", "eval_fn", "arith", "partial_fn"}
        k, extra_in = 0, []
        for v in inputs:
            i = v.get("in", {})
            if v.get("ev") in NEGZEROABLE and "lift" not in i and "rescale" not in i and "[0, 1]" in json.dumps(i):
                k += 1
                if k % plan["negzero_every"] == 0:
                    w = json.loads(json.dumps(v))
                    w["in"]["negzero"] = True
                    w["case"] = str(w.get("case", "")) + "-negzero"
                    extra_in.append(w)
        inputs.extend(extra_in)
        gen_stats.append({"name": "signed_zero_copies", "vectors": len(extra_in)})
    if plan.get("via_artifact"):
        # bytes of the independent encoder (unknown fields, explicit defaults, unpacked scalars, any field order) also arrive
        # as artifact LAYERS: stored with the matching media type and read back through the typed getters
        extra_in = []
        for v in inputs:
            if v.get("ev") == "wire_decode" and str(v["in"].get("type", "")).replace("_", "").lower() in ("instance", "parametricinstance", "state", "sampleset"):
                w = json.loads(json.dumps(v))
                w["in"]["via"] = "artifact"
                w["in"]["dir"] = os.path.relpath(os.path.join(wd, "arch"), ROOT)
                w["case"] = str(w.get("case", "")) + "-layer"
                extra_in.append(w)
        if plan["via_artifact"] == "only":
            # (the property is about artifacts: keep only what travels through a layer)
            inputs = [v for v in inputs if v.get("ev") != "wire_decode"]
        inputs.extend(extra_in)
        gen_stats.append({"name": "wire_decode_via_artifact_layer", "vectors": len(extra_in)})
    inp_path = os.path.join(wd, "inputs.ndjson")
    with open(inp_path, "w") as f:
        for v in inputs:
            f.write(json.dumps(v, separators=(",", ":")) + "\n")
    obs_path = os.path.join(wd, "obs.ndjson")
    harness_replay(inp_path, obs_path, jobs=8)
    if plan.get("reencode"):
        # C07, second direction: SDK-written bytes -> canonical re-encoding by the specification -> prost reads both
        recs = os.path.join(wd, "reenc.ndjson")
        k = 0
        with open(recs, "w") as f:
            for l in open(obs_path):
                e = json.loads(l)
                if e.get("ev") == "wire_encode" and e["out"].get("tag") == "ok":
                    f.write(json.dumps({"wtype": e["in"]["wtype"], "bytes": e["out"]["bytes"]}) + "\n")
                    k += 1
        if k:
            vecs, st = generate("reenc", "Gen_WireReenc.tla", "Gen_WireReenc.cfg", wd, "impl+gen", workers=8, env={"REENC": recs})
            gen_stats.append(st)
            inp2, obs2 = os.path.join(wd, "inputs2.ndjson"), os.path.join(wd, "obs2.ndjson")
            with open(inp2, "w") as f:
                for v in vecs:
                    f.write(json.dumps(v, separators=(",", ":")) + "\n")
            harness_replay(inp2, obs2, jobs=8)
            with open(obs_path, "a") as f:
                f.write(open(obs2).read())
            os.remove(inp2); os.remove(obs2)
        os.remove(recs)
    n_events, bad, jstates, jtrans = judge(obs_path, wd, chunk=plan.get("chunk", 3000))
    # a message whose Rust codec is hand-written is excused from the static table comparison only if the behavioural
    # families actually exercised it
    hand = {v["in"]["name"] for v in inputs if v.get("ev") == "schema_msg" and v["in"].get("Rhand")}
    if hand:
        seen = set()
        for l in open(obs_path):
            if '"wire_decode"' in l:
                seen.add(json.loads(l)["in"].get("type"))
        if hand - seen:
            raise ToolError(f"hand-written codecs without behavioural coverage: {sorted(hand - seen)}")
    # verdicts
    known = load_known()
    violations, known_hits, foreign = [], {}, 0
    for (e, clauses) in bad:
        mine = owned(prop, e.get("ev"), clauses)
        if not mine:
            foreign += 1
            if foreign <= 5:
                log(f"NOTE: event {e.get('ev')} case={e.get('case')} rejected by clauses {clauses} that do not decide {prop} (extension of the specification / another property's clause)")
            continue
        hit = None
        for k in known.get("findings", []):
            if matches(k, prop, e, mine):
                hit = k
                break
        if hit:
            known_hits.setdefault(hit["id"], [hit, 0])[1] += 1
        else:
            violations.append((e, mine))
    for kid, (k, n) in known_hits.items():
        log(f"KNOWN-FINDING: property={prop} {k['what']} [{kid}; {n} events]")
    replay_paths = []
    # an event that is one step of a composite vector (a history) is replayed by performing the whole vector again
    by_case = {v.get("case"): v for v in inputs if v.get("ev") in ("seq", "store", "chain_encode")} if violations else {}
    for i, (e, mine) in enumerate(violations[:20]):
        rp = os.path.join(wd, f"replay-{i}.json")
        rec = {"property": prop, "failed_clauses": mine, "event": e}
        if e.get("case") in by_case and e.get("ev") != by_case[e["case"]].get("ev"):
            rec["vector"] = by_case[e["case"]]
        json.dump(rec, open(rp, "w"), indent=1)
        replay_paths.append(rp)
        log(f"VIOLATION property={prop} replay={os.path.relpath(rp, ROOT)}")
        log(f"  event={e.get('ev')} case={e.get('case')} failed={mine}")
    # evidence
    samples = []
    seen_ev = set()
    for l in open(obs_path):
        e = json.loads(l)
        if e.get("ev") not in seen_ev and len(samples) < 4:
            seen_ev.add(e.get("ev"))
            samples.append(small(e))
    if not samples:
        raise ToolError("no events recorded")
    by_ev = {}
    for l in open(obs_path):
        ev = l[l.find('"ev":"') + 6:]
        ev = ev[:ev.find('"')]
        by_ev[ev] = by_ev.get(ev, 0) + 1
    states = sum(m["states"] for m in mc_stats) + sum(g.get("states", 0) for g in gen_stats)
    trans = sum(m["transitions"] for m in mc_stats) + sum(g.get("transitions", 0) for g in gen_stats)
    evidence = {
        "property_id": prop, "tier": tier, "seed": seed, "level": "model_checking",
        "coverage": {
            "states": max(states, 1), "transitions": max(trans, 1),
            "traces_validated_against_impl": n_events,
            "samples": samples,
            "exhaustive": bool(plan.get("exhaustive_note")),
            "exhaustive_scope": plan.get("exhaustive_note", ""),
            "model_checking_runs": mc_stats, "generator_runs": gen_stats,
            "events_by_kind": by_ev,
            "events_rejected": len(bad), "events_rejected_other_property_clauses": foreign,
            "known_finding_events": {k: v[1] for k, v in known_hits.items()},
            "validator_states": jstates,
            "checker_cmd": "tlc -config Judge.cfg Judge.tla (TRACE=<recorded events>)",
        },
        "assumptions": plan.get("assumptions", []) + [
            "harness shape conversion (JSON <-> ommx::v1 messages, f64 <-> exact dyadic) is glue and is trusted; binding self-test in --setup",
            "small-scope: bounds of generators/drivers as stated in DESIGN.md for this property"],
        "wall_s": round(time.time() - t0, 1), "violations": len(violations),
        "build_s": round(build_s, 1),
    }
    os.makedirs(EVIDENCE_DIR, exist_ok=True)
    json.dump(evidence, open(os.path.join(EVIDENCE_DIR, f"{prop}.json"), "w"), indent=1)
    log(f"{prop} [{tier}] events={n_events} rejected={len(bad)} violations={len(violations)} "
        f"known={sum(v[1] for v in known_hits.values())} wall={evidence['wall_s']}s")
    if not violations and not os.environ.get("VERIF_KEEP"):
        os.remove(obs_path)
        os.remove(inp_path)
    return 1 if violations else 0


def replay(prop, path):
    build_harness()
    write_schema()
    wd = os.path.join(WORK, prop + "_replay")
    shutil.rmtree(wd, ignore_errors=True)
    os.makedirs(wd)
    r = json.load(open(path))
    e = r.get("vector") or r["event"]
    e.pop("out", None)
    inp = os.path.join(wd, "in.ndjson")
    open(inp, "w").write(json.dumps(e) + "\n")
    obs = os.path.join(wd, "obs.ndjson")
    harness_replay(inp, obs, jobs=1)
    n, bad, _, _ = judge(obs, wd)
    rc = 0
    for (ev, clauses) in bad:
        mine = owned(prop, ev.get("ev"), clauses)
        if mine:
            log(f"VIOLATION property={prop} replay={path}")
            log(f"  failed={mine}")
            rc = 1
    if rc == 0:
        log("replay: event accepted")
    return rc


def setup():
    build_harness()
    mods = sorted(glob.glob(os.path.join(SPEC, "*.tla")) + glob.glob(os.path.join(SPEC, "gen", "*.tla")) + glob.glob(os.path.join(SPEC, "mc", "*.tla")))
    for m in mods:
        r = run(["tla-sany", os.path.basename(m)], 300, env=tlc_env(), cwd=os.path.dirname(m))
        if r.returncode != 0 or "Semantic errors" in r.stdout or "***Parse Error***" in r.stdout or "Fatal errors" in r.stdout:
            log(r.stdout[-3000:])
            raise ToolError("SANY rejected " + m)
    log(f"setup ok: harness built, {len(mods)} modules parsed")
    from selftest import selftest
    selftest(sys.modules[__name__])
    return 0


def main():
    a = sys.argv[1:]
    try:
        if a and a[0] == "--setup":
            return setup()
        prop = a[0]
        if "--replay" in a:
            return replay(prop, a[a.index("--replay") + 1])
        tier = a[a.index("--tier") + 1] if "--tier" in a else (os.environ.get("VERIF_TIER") or "quick")
        seed = int(os.environ.get("VERIF_SEED", "1"))
        return check(prop, tier, seed)
    except ToolError as e:
        log("TOOL-ERROR:", e)
        return 2


if __name__ == "__main__":
    sys.exit(main())
