------------------------------- MODULE JudgeInst -------------------------------
(* Named clauses for instance-level events (C03-C06, C09-C15). *)
EXTENDS Inst
InstEvents == {"evaluate", "inst_partial", "inst_subst", "relax", "restore", "as_min", "commute",
               "penalty", "uniform_penalty", "to_parametric", "with_parameters", "log_encode",
               "slack_convert", "slack_add", "evaluate_samples", "best", "pubo", "qubo", "deps_order", "used_ids"}
IsErr(e) == e.out.tag = "err"
HasPost(e) == "post" \in DOMAIN e.out

\* ---- C05 : evaluate ----------------------------------------------------------------------------
\* comparison of a recorded solution with the reference solution
SolClauses(raw, st, sol, pfx) ==
  LET want == SolOf(raw, st)  got == SolSeen(sol)  I == AbsI(raw)
      rs == got.state
      depfree == DOMAIN st \cap DepIds(raw) = {} /\ FixedIds(I) \cap DepIds(raw) = {} IN
  [ objective        |-> got.objective = want.objective,
    constraints_bag  |-> got.cons = want.cons /\ got.ncons = Cardinality(want.cons),
    feasible_relaxed |-> got.relaxed = << want.relaxed >>,
    feasible         |-> got.feasible = want.feasible,
    state_present    |-> sol.state # <<>>,
    state_domain     |-> sol.state # <<>> => DOMAIN rs = DOMAIN st \cup DOMAIN I.vars \cup DepIds(raw),
    state_given      |-> sol.state # <<>> => \A v \in (DOMAIN st \ (FixedIds(I) \cup DepIds(raw))) \cap DOMAIN rs : rs[v] = st[v],
    state_fixed      |-> sol.state # <<>> => \A v \in (FixedIds(I) \ DepIds(raw)) \cap DOMAIN rs : rs[v] = I.vars[v].fixed[1],
    state_dependent  |-> (sol.state # <<>> /\ depfree) => \A d \in DepIds(raw) \cap DOMAIN rs : rs[d] = want.state[d],
    state_irrelevant |-> sol.state # <<>> => \A v \in (DOMAIN I.vars \ (DOMAIN st \cup FixedIds(I) \cup DepIds(raw))) \cap DOMAIN rs :
                                                rs[v] = NearestToZero(EffBound(I.vars[v])),
    vars_listed      |-> { sol.vars[i] : i \in DOMAIN sol.vars } = { raw.vars[i] : i \in DOMAIN raw.vars } ]
AllTrue(r) == \A k \in DOMAIN r : r[k]
ClausesEvaluate(e) ==
  LET raw == e.in.inst  st == St(e.in.st) IN
  IF ~ValidInst(raw) THEN [ no_panic |-> NoPanic(e) ]
  ELSE IF ~Ok(e) THEN [ no_panic |-> NoPanic(e), reject_iff |-> IsErr(e) /\ SolRejects(raw, st) ]
  ELSE IF SolRejects(raw, st) THEN [ no_panic |-> TRUE, reject_iff |-> FALSE ]
  ELSE [ no_panic |-> TRUE, reject_iff |-> TRUE ] @@ SolClauses(raw, st, e.out.sol, "")

\* ---- C03 : partial evaluation of an instance ----------------------------------------------------
SameExceptFns(I, J) == /\ I.sense = J.sense /\ I.active = J.active /\ I.removed = J.removed
                       /\ I.params = J.params /\ I.hints = J.hints /\ DOMAIN I.cons = DOMAIN J.cons
                       /\ \A c \in DOMAIN I.cons : I.cons[c].eq = J.cons[c].eq /\ I.cons[c].meta = J.cons[c].meta
                       /\ I.parameters = J.parameters
ClausesInstPartial(e) ==
  LET pre == e.in.inst  s == St(e.in.st)  I == AbsI(pre) IN
  IF ~Ok(e) \/ ~HasPost(e) THEN [ no_panic |-> NoPanic(e), no_error |-> FALSE ]
  ELSE LET post == e.out.post  J == AbsI(post)  W == PartialEvaluate(I, s)  got == SeqToSet(e.out.ids) IN
  [ no_panic  |-> TRUE,
    objective |-> J.obj = W.obj,
    constraints |-> DOMAIN J.cons = DOMAIN W.cons /\ \A c \in DOMAIN W.cons \cap DOMAIN J.cons : J.cons[c].f = W.cons[c].f,
    dependencies |-> J.deps = W.deps,
    no_fixed_mentioned |-> AllFnIdsRaw(post) \cap DOMAIN s = {},
    fixed_recorded |-> J.vars = W.vars,
    rest_unchanged |-> SameExceptFns(I, J),
    ids |-> /\ got \subseteq AllFnIdsRaw(pre) \cap DOMAIN s
            /\ (DOMAIN s \cap (Ids(I.obj) \cup UNION { Ids(I.cons[c].f) : c \in DOMAIN I.cons } \cup UNION { Ids(I.deps[d]) : d \in DOMAIN I.deps })) \subseteq got ]

\* the end-to-end statement, on the recorded solutions themselves (no reference semantics involved)
View(r) == IF r.tag # "ok" THEN [ok |-> FALSE]
           ELSE LET g == SolSeen(r.sol) IN [ok |-> TRUE, objective |-> g.objective, cons |-> { [id |-> c.id, eq |-> c.eq, value |-> c.value, meta |-> c.meta, removed_reason |-> c.removed_reason, rparams |-> c.rparams] : c \in g.cons },
                                           relaxed |-> g.relaxed, feasible |-> g.feasible, state |-> g.state]
ClausesCommute(e) ==
  IF ~Ok(e) THEN [ no_panic |-> NoPanic(e) ]
  ELSE LET a == View(e.out.full)  b == View(e.out.rest)  c == View(e.out.rest2) IN
  [ no_panic |-> TRUE,
    views_equal |-> a.ok => (b.ok /\ a = b),
    two_step_equal |-> a.ok => (c.ok /\ a = c),
    two_step_instance |-> (e.out.two.tag = "ok" /\ e.out.pe.tag = "ok") => AbsI(e.out.two.post) = AbsI(e.out.post) ]

\* ---- C04 : substitution in an instance -----------------------------------------------------------
ClausesInstSubst(e) ==
  LET pre == e.in.inst  I == AbsI(pre)  r == ReplFun(e.in.repl) IN
  IF ~Ok(e) \/ ~HasPost(e) THEN [ no_panic |-> NoPanic(e), no_error |-> FALSE ]
  ELSE LET J == AbsI(e.out.post)  W == Substitute(I, r) IN
  [ no_panic |-> TRUE,
    subst_objective |-> J.obj = W.obj,
    subst_constraints |-> DOMAIN J.cons = DOMAIN W.cons /\ \A c \in DOMAIN W.cons \cap DOMAIN J.cons : J.cons[c].f = W.cons[c].f,
    deps_recorded |-> J.deps = W.deps,
    \* variables are untouched, except that an implementation may keep the recorded fixed value of a DEPENDENT variable
    \* in step with its definition: cleared, or set to the value of a definition that mentions no variable
    rest_unchanged |-> /\ SameExceptFns(I, J) /\ DOMAIN J.vars = DOMAIN I.vars
                       /\ \A v \in DOMAIN I.vars :
                            /\ [J.vars[v] EXCEPT !.fixed = I.vars[v].fixed] = I.vars[v]
                            /\ J.vars[v].fixed # I.vars[v].fixed =>
                                  /\ v \in DOMAIN W.deps
                                  /\ \/ J.vars[v].fixed = <<>>
                                     \/ (Ids(W.deps[v]) = {} /\ J.vars[v].fixed = << PEval(W.deps[v], <<>>) >>) ]
\* every observed iteration order of the dependency map gives the reference result
ClausesDepsOrder(e) ==
  LET raw == e.in.inst  st == St(e.in.st)  rej == SolRejects(raw, st) IN
  IF ~Ok(e) THEN [ no_panic |-> NoPanic(e) ]
  ELSE
  [ no_panic |-> \A i \in DOMAIN e.out.runs : e.out.runs[i].r.tag \in {"ok", "err"},
    fails_cleanly |-> \A i \in DOMAIN e.out.runs : (e.out.runs[i].r.tag = "err") <=> rej,
    schedule_result |-> ~rej => \A i \in DOMAIN e.out.runs :
        LET r == e.out.runs[i].r IN
        r.tag = "ok" => (r.state # <<>> /\ \A d \in DepIds(raw) : d \in PairIds(r.state[1]) /\ PairFun(r.state[1])[d] = SolOf(raw, st).state[d]),
    some_run |-> Len(e.out.runs) >= 1 ]

\* ---- C14 : relax / restore -------------------------------------------------------------------------
ClausesRelax(e) ==
  LET pre == e.in.inst  I == AbsI(pre)  c == e.in.cid  known == c \in I.active IN
  IF ~HasPost(e) THEN [ no_panic |-> NoPanic(e) ]
  ELSE LET J == AbsI(e.out.post) IN
  [ no_panic |-> NoPanic(e),
    error_iff_not_in_list |-> IsErr(e) <=> ~known,
    unchanged_on_error |-> IsErr(e) => e.out.post = pre,
    moved_only |-> Ok(e) => J = Relax(I, c, e.in.reason, e.in.rparams),
    exactly_one_list |-> UniqueConIds(e.out.post) ]
ClausesRestore(e) ==
  LET pre == e.in.inst  I == AbsI(pre)  c == e.in.cid  known == c \in DOMAIN I.removed IN
  IF ~HasPost(e) THEN [ no_panic |-> NoPanic(e) ]
  ELSE LET J == AbsI(e.out.post) IN
  [ no_panic |-> NoPanic(e),
    error_iff_not_in_list |-> IsErr(e) <=> ~known,
    unchanged_on_error |-> IsErr(e) => e.out.post = pre,
    moved_only |-> Ok(e) => J = Restore(I, c),
    exactly_one_list |-> UniqueConIds(e.out.post) ]

\* ---- C15 : as_minimization_problem / best ---------------------------------------------------------
ClausesAsMin(e) ==
  IF ~Ok(e) \/ ~HasPost(e) THEN [ no_panic |-> NoPanic(e), no_error |-> FALSE ]
  ELSE [ no_panic |-> TRUE, as_min |-> AbsI(e.out.post) = AsMin(AbsI(e.in.inst)) ]
BoolMap(seq) == PairFun(seq)
SvFun(sv) == LET ids == UNION { SeqToSet(sv[i].ids) : i \in DOMAIN sv } IN
             [ s \in ids |-> sv[CHOOSE i \in DOMAIN sv : s \in SeqToSet(sv[i].ids)].value ]
\* the SampleSet's feasibility tables, current and legacy layout (sample_set.proto)
SSRelaxed(ss) == IF ss.feasible_relaxed = <<>> THEN BoolMap(ss.feasible) ELSE BoolMap(ss.feasible_relaxed)
SSUnrelaxed(ss) == IF ss.feasible_relaxed = <<>> THEN BoolMap(ss.feasible_unrelaxed) ELSE BoolMap(ss.feasible)
Better(sense, a, b) == IF sense = "max" THEN RLess(b, a) ELSE RLess(a, b)   \* a strictly better than b
BestOK(ss, tab, r) ==
  LET feas == { s \in DOMAIN tab : tab[s] }  obj == IF ss.objectives = <<>> THEN <<>> ELSE SvFun(ss.objectives[1]) IN
  IF feas = {} THEN r.tag = "err"
  ELSE /\ r.tag = "ok" /\ r.id \in feas /\ r.id \in DOMAIN obj
       /\ \A s \in feas \cap DOMAIN obj : ~Better(ss.sense, obj[s], obj[r.id])
ClausesBest(e) ==
  LET ss == e.in.ss IN
  IF ~Ok(e) THEN [ no_panic |-> NoPanic(e) ]
  ELSE
  [ no_panic |-> TRUE,
    best_relaxed   |-> BestOK(ss, SSRelaxed(ss), e.out.relaxed),
    best_unrelaxed |-> BestOK(ss, SSUnrelaxed(ss), e.out.unrelaxed),
    feasible_ids   |-> /\ SeqToSet(e.out.feasible_ids) = { s \in DOMAIN SSRelaxed(ss) : SSRelaxed(ss)[s] }
                       /\ SeqToSet(e.out.feasible_unrelaxed_ids) = { s \in DOMAIN SSUnrelaxed(ss) : SSUnrelaxed(ss)[s] } ]

\* ---- C09 : penalty methods ------------------------------------------------------------------------
ParamOf(J, c) == CHOOSE p \in DOMAIN J.parameters : J.parameters[p].subs = <<c>>
ClausesPenalty(e) ==
  LET pre == e.in.inst  I == AbsI(pre) IN
  IF ~Ok(e) THEN [ no_panic |-> NoPanic(e), no_error |-> FALSE ]
  ELSE LET J == AbsI(e.out.pinst)  P == DOMAIN J.parameters
           tagged == \A c \in I.active : Cardinality({ p \in P : J.parameters[p].subs = <<c>> }) = 1 IN
  [ no_panic |-> TRUE,
    no_active |-> J.active = {},
    all_constraints_kept |-> DOMAIN J.cons = DOMAIN I.cons /\ \A c \in DOMAIN I.cons \cap DOMAIN J.cons : J.cons[c] = I.cons[c],
    removed_unchanged |-> \A c \in DOMAIN I.removed : c \in DOMAIN J.removed /\ J.removed[c] = I.removed[c],
    param_tagged |-> tagged /\ Cardinality(P) = Cardinality(I.active),
    param_fresh |-> /\ P \cap (DOMAIN I.vars \cup AllFnIdsRaw(pre)) = {}
                    /\ Len(e.out.pinst.parameters) = Cardinality(P),
    objective_identity |-> tagged => J.obj = PAdd(I.obj, PSumSet(I.active, LAMBDA c : PMul(PVar(ParamOf(J, c)), Sq(I.cons[c].f)))),
    carried |-> J.vars = I.vars /\ J.sense = I.sense /\ J.deps = I.deps /\ J.hints = I.hints ]
ClausesUniformPenalty(e) ==
  LET pre == e.in.inst  I == AbsI(pre) IN
  IF ~Ok(e) THEN [ no_panic |-> NoPanic(e), no_error |-> FALSE ]
  ELSE LET J == AbsI(e.out.pinst)  P == DOMAIN J.parameters IN
  [ no_panic |-> TRUE,
    no_active |-> J.active = {},
    all_constraints_kept |-> DOMAIN J.cons = DOMAIN I.cons /\ \A c \in DOMAIN I.cons \cap DOMAIN J.cons : J.cons[c] = I.cons[c],
    removed_unchanged |-> \A c \in DOMAIN I.removed : c \in DOMAIN J.removed /\ J.removed[c] = I.removed[c],
    param_fresh |-> Cardinality(P) = 1 /\ Len(e.out.pinst.parameters) = 1 /\ P \cap (DOMAIN I.vars \cup AllFnIdsRaw(pre)) = {},
    objective_identity |-> Cardinality(P) = 1 =>
        J.obj = PAdd(I.obj, PMul(PVar(CHOOSE p \in P : TRUE), PSumSet(I.active, LAMBDA c : Sq(I.cons[c].f)))),
    carried |-> J.vars = I.vars /\ J.sense = I.sense /\ J.deps = I.deps /\ J.hints = I.hints ]

\* ---- C10 : parameters --------------------------------------------------------------------------------
ClausesToParametric(e) ==
  IF ~Ok(e) THEN [ no_panic |-> NoPanic(e), no_error |-> FALSE ]
  ELSE LET I == AbsI(e.in.inst)  J == AbsI(e.out.pinst) IN
  [ no_panic |-> TRUE,
    same_content |-> [J EXCEPT !.params = <<>>] = [I EXCEPT !.params = <<>>] /\ DOMAIN J.parameters = {} ]
ClausesWithParameters(e) ==
  LET pre == e.in.pinst  I == AbsI(pre)  pv == St(e.in.pv)  missing == ~(DOMAIN I.parameters \subseteq DOMAIN pv) IN
  IF ~Ok(e) THEN [ no_panic |-> NoPanic(e), missing_is_error |-> IsErr(e) /\ missing ]
  ELSE LET J == AbsI(e.out.post) IN
  [ no_panic |-> TRUE,
    missing_is_error |-> ~missing,
    objective |-> J.obj = PPartial(I.obj, pv),
    constraints |-> \A c \in I.active : c \in DOMAIN J.cons /\ J.cons[c].f = PPartial(I.cons[c].f, pv),
    unchanged |-> /\ J.vars = I.vars /\ J.sense = I.sense /\ J.active = I.active /\ J.removed = I.removed /\ J.hints = I.hints
                  /\ J.deps = I.deps /\ DOMAIN J.cons = DOMAIN I.cons
                  /\ \A c \in DOMAIN I.cons \cap DOMAIN J.cons : J.cons[c].eq = I.cons[c].eq /\ J.cons[c].meta = I.cons[c].meta
                  /\ \A c \in DOMAIN I.removed \cap DOMAIN J.cons : J.cons[c].f = I.cons[c].f,
    recorded |-> e.out.post.params # <<>> /\ St(e.out.post.params[1]) = pv ]

\* ---- C11 : QUBO / PUBO -----------------------------------------------------------------------------------
BinaryIds(I) == { v \in DOMAIN I.vars : I.vars[v].kind = "binary" }
DictPoly(d) == Canon([ i \in DOMAIN d |-> [ids |-> d[i].ids, c |-> d[i].c] ])
StrictlyIncreasing(s) == \A i \in 1..(Len(s) - 1) : s[i] < s[i+1]
MaxDistinct(p) == IF DOMAIN p = {} THEN 0 ELSE Max({ Cardinality(Range(m)) : m \in DOMAIN p })
ClausesPubo(e) ==
  LET raw == e.in.inst  I == AbsI(raw)
      refuse == I.active # {} \/ I.sense = "max" \/ ~(FnIds(raw.objective) \subseteq BinaryIds(I)) IN
  IF ~Ok(e) THEN [ no_panic |-> NoPanic(e), refusal_iff |-> IsErr(e) /\ refuse ]
  ELSE LET d == e.out.dict  ids == Ids(I.obj) IN
  [ no_panic |-> TRUE,
    refusal_iff |-> ~refuse,
    keys_canonical |-> /\ \A i \in DOMAIN d : StrictlyIncreasing(d[i].ids)
                       /\ \A i, j \in DOMAIN d : d[i].ids = d[j].ids => i = j,
    no_zero |-> \A i \in DOMAIN d : d[i].c # Zero,
    reduce  |-> DictPoly(d) = BinaryReduce(I.obj),
    all_assignments |-> Cardinality(ids) <= 12 =>
        \A x \in [ids -> {Zero, One}] : PEval(DictPoly(d), x) = PEval(I.obj, x) ]
ClausesQubo(e) ==
  LET raw == e.in.inst  I == AbsI(raw)
      refuse == I.active # {} \/ I.sense = "max" \/ ~(FnIds(raw.objective) \subseteq BinaryIds(I))
                \/ (raw.objective # <<>> /\ \E i \in DOMAIN RawTerms(raw.objective[1]) :
                      RawTerms(raw.objective[1])[i].c # Zero /\ Cardinality(Range(RawTerms(raw.objective[1])[i].ids)) > 2) IN
  IF ~Ok(e) THEN [ no_panic |-> NoPanic(e), refusal_iff |-> IsErr(e) /\ refuse ]
  ELSE LET d == e.out.dict  ids == Ids(I.obj)
           q == Canon([ i \in DOMAIN d |-> [ids |-> d[i].ids, c |-> d[i].c] ] \o << [ids |-> <<>>, c |-> e.out.offset] >>) IN
  [ no_panic |-> TRUE,
    refusal_iff |-> ~refuse,
    keys_canonical |-> /\ \A i \in DOMAIN d : Len(d[i].ids) = 2 /\ d[i].ids[1] <= d[i].ids[2]
                       /\ \A i, j \in DOMAIN d : d[i].ids = d[j].ids => i = j,
    no_zero |-> \A i \in DOMAIN d : d[i].c # Zero,
    all_assignments |-> Cardinality(ids) <= 12 =>
        \A x \in [ids -> {Zero, One}] : PEval(q, x) = PEval(I.obj, x) ]

\* ---- C12 : log encoding ------------------------------------------------------------------------------------
\* the encoded variable itself stays as it is, except that its bound may be replaced by another finite interval that
\* contains exactly the same integers (e.g. the integer hull [ceil(l), floor(u)])
SameVarButBound(nv, ov, lo, hi) ==
  /\ [nv EXCEPT !.bound = ov.bound] = ov
  /\ nv.bound # ov.bound => (nv.bound # <<>> /\ Valid(nv.bound[1]) /\ IsFin(nv.bound[1].lo) /\ IsFin(nv.bound[1].hi)
                               /\ RCeil(nv.bound[1].lo) = lo /\ RFloor(nv.bound[1].hi) = hi)
SameButBound(J, I, v, lo, hi) == /\ [J EXCEPT !.vars = I.vars] = I /\ DOMAIN J.vars = DOMAIN I.vars
                                 /\ \A x \in DOMAIN I.vars \ {v} : J.vars[x] = I.vars[x]
                                 /\ SameVarButBound(J.vars[v], I.vars[v], lo, hi)
ClausesLogEncode(e) ==
  LET pre == e.in.inst  v == e.in.vid  I == AbsI(pre)
      known == v \in DOMAIN I.vars
      var == I.vars[v]
      isint == known /\ var.kind = "integer"
      hasb == isint /\ var.bound # <<>>
      b == var.bound[1]
      finite == hasb /\ IsFin(b.lo) /\ IsFin(b.hi)
      lo == RCeil(b.lo)  hi == RFloor(b.hi)
      mustfail == ~known \/ ~isint \/ ~hasb \/ ~finite \/ lo > hi IN
  IF ~NoPanic(e) THEN [ no_hang_no_panic |-> FALSE ]
  ELSE IF ~Ok(e) THEN [ no_hang_no_panic |-> TRUE, error_iff |-> mustfail,
                        instance_unchanged_on_error |-> HasPost(e) /\ e.out.post = pre ]
  ELSE LET post == e.out.post  J == AbsI(post)  enc == e.out.enc
           new == DOMAIN J.vars \ DOMAIN I.vars
           p == Denote(enc)
           lin == \A m \in DOMAIN p : Len(m) <= 1
           coef(x) == IF <<x>> \in DOMAIN p THEN p[<<x>>] ELSE Zero
           const == IF <<>> \in DOMAIN p THEN p[<<>>] ELSE Zero
           ints == \A x \in new : coef(x)[2] = 1
           cs == [ i \in 1..Cardinality(new) |-> coef(SetToSeq(new)[i])[1] ]
           w == hi - lo IN
  IF mustfail THEN [ no_hang_no_panic |-> TRUE, error_iff |-> FALSE ]
  ELSE
  [ no_hang_no_panic |-> TRUE, error_iff |-> TRUE,
    constant_case |-> lo = hi => (new = {} /\ p = PConst(R(lo)) /\ SameButBound(J, I, v, lo, hi)),
    registered |-> /\ UniqueVarIds(post) /\ Len(post.vars) = Len(pre.vars) + Cardinality(new)
                   /\ \A x \in DOMAIN I.vars \ {v} : J.vars[x] = I.vars[x]
                   /\ SameVarButBound(J.vars[v], I.vars[v], lo, hi)
                   /\ \A x \in new : /\ J.vars[x].kind = "binary" /\ J.vars[x].bound = << [lo |-> Zero, hi |-> One] >>
                                     /\ J.vars[x].fixed = <<>>
                                     /\ Len(J.vars[x].meta.subs) >= 1 /\ J.vars[x].meta.subs[1] = v
                   /\ \A x, y \in new : J.vars[x].meta.subs = J.vars[y].meta.subs => x = y
                   /\ [J EXCEPT !.vars = I.vars] = I,
    uses_new_only |-> lin /\ Ids(p) \subseteq new,
    covers |-> (lin /\ ints /\ const[2] = 1) =>
        IF w <= 4096 /\ Cardinality(new) <= 13
        THEN { const[1] + s : s \in SubsetSums(cs, {0}) } = lo..hi
        ELSE const[1] = lo /\ CoversByCriterion(cs, w),
    integral |-> lin /\ ints /\ const[2] = 1 ]

\* ---- C13 : integer slack ---------------------------------------------------------------------------------------
\* rows of the feasibility table recorded with the REAL evaluator: [x (state), s, r]
XKey(x) == St(x)
ClausesSlack(e, convert) ==
  LET pre == e.in.inst  I == AbsI(pre)  c == e.in.cid
      active == c \in I.active
      con == I.cons[c]
      hasf == active /\ ActiveCon(pre, c).f # <<>>
      isle == active /\ con.eq = "le"
      ids == IF hasf THEN MsgIds(ActiveCon(pre, c).f[1]) ELSE {}
      kindsok == \A x \in ids : x \in DOMAIN I.vars /\ I.vars[x].kind \in {"integer", "binary"}
      reject == ~active \/ ~isle \/ ~hasf \/ ~kindsok
      pts == { St(e.in.points[i]) : i \in DOMAIN e.in.points }
      fx(x) == PEval(con.f, x)
      holds(x) == RLeq(fx(x), Zero)
      everTrue == \E x \in pts : holds(x)
      alwaysTrue == \A x \in pts : holds(x) IN
  IF ~NoPanic(e) \/ ~HasPost(e) THEN [ no_panic |-> FALSE ]
  ELSE IF reject THEN [ no_panic |-> TRUE, rejects |-> IsErr(e), unchanged_on_error |-> e.out.post = pre ]
  ELSE LET post == e.out.post  J == AbsI(post)  new == DOMAIN J.vars \ DOMAIN I.vars IN
  IF e.out.tag = "infeasible" THEN
    [ no_panic |-> TRUE, never_true_is_infeasible_error |-> ~everTrue, unchanged_on_error |-> post = pre ]
  ELSE IF IsErr(e) THEN
    \* the only remaining legal error: slack range above the caller's limit (convert).  The loosest admissible analysis
    \* is the natural interval extension of a*f taken over the message's terms AS LISTED (a message that repeats a
    \* monomial gives a wider interval term by term than after merging); an implementation may be tighter, so the
    \* error is legal only if even that width exceeds the limit.
    \* The multiplier a is the content factor of the merged or of the listed coefficients (C16 accepts both readings).
    LET msg == ActiveCon(pre, c).f[1]  ts == RawTerms(msg)
        as == { ContentFactor({ con.f[m] : m \in DOMAIN con.f }), ContentFactor({ ts[i].c : i \in DOMAIN ts } \ {Zero}) }
        bnd == [ x \in DOMAIN I.vars |-> EffBound(I.vars[x]) ]
        h(a) == HullUnion(NatHull(PScale(con.f, a), bnd), RawHull(msg, a, bnd)) IN
    [ no_panic |-> TRUE,
      rejects |-> convert /\ \E a \in as : (~IsFin(h(a).lo) \/ RLess(R(e.in.max), RNeg(h(a).lo))),
      unchanged_on_error |-> post = pre ]
  ELSE IF new = {} THEN
    \* moved to the removed constraints unchanged: only legal if the inequality holds on the whole box
    [ no_panic |-> TRUE,
      always_true_moved_unchanged |-> c \in DOMAIN J.removed /\ alwaysTrue /\ J = Relax(I, c, J.removed[c].reason, J.removed[c].rparams) ]
  ELSE LET s == CHOOSE x \in new : TRUE  sv == J.vars[s]
           rows == e.out.table
           U == IF sv.bound # <<>> /\ IsFin(sv.bound[1].hi) THEN RFloor(sv.bound[1].hi) ELSE -1
           L0 == IF sv.bound # <<>> /\ IsFin(sv.bound[1].lo) THEN RCeil(sv.bound[1].lo) ELSE 0
           rowsOf(x) == { i \in DOMAIN rows : St(rows[i].x) = x }
           feas(i) == rows[i].r.tag = "ok" /\ rows[i].r.feasible IN
  [ no_panic |-> TRUE,
    \* one new integer-valued variable (kind integer, or binary when its range lies in {0,1}) with a finite integral bound
    \* [L0, U], 0 <= L0; for add_integer_slack the bound is the caller's [0, ub]; for the conversion its range respects the limit
    slack_var |-> /\ Cardinality(new) = 1 /\ sv.kind \in {"integer", "binary"} /\ sv.bound # <<>>
                  /\ IsFin(sv.bound[1].lo) /\ sv.bound[1].lo[2] = 1 /\ IsFin(sv.bound[1].hi) /\ sv.bound[1].hi[2] = 1
                  /\ 0 <= L0 /\ L0 <= U /\ (sv.kind = "binary" => U <= 1) /\ sv.meta.subs = <<c>> /\ sv.fixed = <<>>
                  /\ (~convert => (L0 = 0 /\ U = e.in.ub)) /\ (convert => U - L0 <= e.in.max),
    equality_kind |-> c \in J.active /\ J.cons[c].eq = (IF convert THEN "eq" ELSE "le") /\ J.cons[c].meta = con.meta,
    table_complete |-> \A x \in pts : { rows[i].s : i \in rowsOf(x) } = { R(k) : k \in L0..U },
    projection |-> \A x \in pts : holds(x) <=> \E i \in rowsOf(x) : feas(i),
    function_kept |-> c \in DOMAIN J.cons /\ [ m \in DOMAIN J.cons[c].f \ {<<s>>} |-> J.cons[c].f[m] ] = con.f
                                          /\ \A m \in DOMAIN J.cons[c].f : s \in Range(m) => m = <<s>>,
    reported_b |-> convert \/ (e.out.b # <<>> /\ e.out.b_is_slack_coef),
    others_unchanged |-> /\ \A x \in DOMAIN I.vars : x \in DOMAIN J.vars /\ J.vars[x] = I.vars[x]
                         /\ \A k \in DOMAIN I.cons \ {c} : k \in DOMAIN J.cons /\ J.cons[k] = I.cons[k]
                         /\ J.obj = I.obj /\ J.removed = I.removed /\ J.active = I.active /\ J.sense = I.sense ]

\* ---- C06 : sample sets ------------------------------------------------------------------------------------------------
SampleIds(samples) == UNION { SeqToSet(samples[i].ids) : i \in DOMAIN samples }
StateOfSample(samples, s) == St(samples[CHOOSE i \in DOMAIN samples : s \in SeqToSet(samples[i].ids)].state[1])
ClausesSamples(e) ==
  LET raw == e.in.inst  S == e.in.samples  sids == SampleIds(S)
      allIn == \A s \in sids : ~SolRejects(raw, StateOfSample(S, s)) IN
  IF ~ValidInst(raw) \/ ~allIn THEN [ no_panic |-> NoPanic(e) ]     \* quantified over states the solo path accepts
  ELSE IF ~Ok(e) THEN [ no_panic |-> NoPanic(e), no_error |-> FALSE ]
  ELSE LET ss == e.out.ss  gets == e.out.gets
           keys(m) == PairIds(m)
           want(s) == SolOf(raw, StateOfSample(S, s))
           I == AbsI(raw)
           okget(i) == gets[i].r.tag = "ok"
           got(i) == SolSeen(gets[i].r.sol) IN
  [ no_panic |-> TRUE,
    keys |-> /\ ss.objectives # <<>> /\ DOMAIN SvFun(ss.objectives[1]) = sids
             /\ keys(ss.feasible) = sids /\ keys(ss.feasible_relaxed) = sids
             /\ { gets[i].sid : i \in DOMAIN gets } = sids,
    get_ok |-> \A i \in DOMAIN gets : okget(i),
    objective |-> \A i \in DOMAIN gets : okget(i) => got(i).objective = want(gets[i].sid).objective,
    constraints |-> \A i \in DOMAIN gets : okget(i) => (got(i).cons = want(gets[i].sid).cons /\ got(i).ncons = Cardinality(want(gets[i].sid).cons)),
    flags |-> \A i \in DOMAIN gets : okget(i) => (got(i).relaxed = << want(gets[i].sid).relaxed >> /\ got(i).feasible = want(gets[i].sid).feasible),
    values |-> \A i \in DOMAIN gets : okget(i) =>
                 (gets[i].r.sol.state # <<>> /\ \A v \in DOMAIN I.vars : v \in DOMAIN got(i).state /\ got(i).state[v] = want(gets[i].sid).state[v]),
    tables |-> /\ \A s \in sids \cap keys(ss.feasible) \cap keys(ss.feasible_relaxed) :
                     BoolMap(ss.feasible)[s] = want(s).feasible /\ BoolMap(ss.feasible_relaxed)[s] = want(s).relaxed
               /\ ss.objectives # <<>> /\ \A s \in sids \cap DOMAIN SvFun(ss.objectives[1]) : SvFun(ss.objectives[1])[s] = want(s).objective,
    agrees_with_solo |-> \A i \in DOMAIN e.out.solo : e.out.solo[i].r.tag = "ok",
    \* per-constraint metadata the specification does not compute itself (the ids the evaluation says it used): sample i
    \* extracted from the set reports what evaluating that state alone reports
    used_as_solo |-> LET usedOf(sol) == { <<sol.evaluated[k].id, SeqToSet(sol.evaluated[k].used)>> : k \in DOMAIN sol.evaluated } IN
                     \A i \in DOMAIN gets, j \in DOMAIN e.out.solo :
                        (okget(i) /\ e.out.solo[j].sid = gets[i].sid /\ e.out.solo[j].r.tag = "ok") =>
                           usedOf(gets[i].r.sol) = usedOf(e.out.solo[j].r.sol) ]

ClausesUsedIds(e) ==
  LET raw == e.in.inst IN
  IF ~Ok(e) THEN [ no_panic |-> NoPanic(e) ]
  ELSE [ no_panic |-> TRUE,
         used |-> SeqToSet(e.out.used) = UsedRaw(raw), defined |-> SeqToSet(e.out.defined) = VarIds(raw),
         cids |-> SeqToSet(e.out.cids) = ActiveIds(raw), rcids |-> SeqToSet(e.out.rcids) = RemovedIds(raw),
         binary |-> SeqToSet(e.out.binary) = { v \in VarIds(raw) : VarOf(raw, v).kind = "binary" } ]

ClausesInst(e) ==
  CASE e.ev = "evaluate" -> ClausesEvaluate(e)
    [] e.ev = "inst_partial" -> ClausesInstPartial(e)
    [] e.ev = "commute" -> ClausesCommute(e)
    [] e.ev = "inst_subst" -> ClausesInstSubst(e)
    [] e.ev = "deps_order" -> ClausesDepsOrder(e)
    [] e.ev = "relax" -> ClausesRelax(e)
    [] e.ev = "restore" -> ClausesRestore(e)
    [] e.ev = "as_min" -> ClausesAsMin(e)
    [] e.ev = "best" -> ClausesBest(e)
    [] e.ev = "penalty" -> ClausesPenalty(e)
    [] e.ev = "uniform_penalty" -> ClausesUniformPenalty(e)
    [] e.ev = "to_parametric" -> ClausesToParametric(e)
    [] e.ev = "with_parameters" -> ClausesWithParameters(e)
    [] e.ev = "pubo" -> ClausesPubo(e)
    [] e.ev = "qubo" -> ClausesQubo(e)
    [] e.ev = "log_encode" -> ClausesLogEncode(e)
    [] e.ev = "slack_convert" -> ClausesSlack(e, TRUE)
    [] e.ev = "slack_add" -> ClausesSlack(e, FALSE)
    [] e.ev = "evaluate_samples" -> ClausesSamples(e)
    [] e.ev = "used_ids" -> ClausesUsedIds(e)
=============================================================================
