------------------------------- MODULE Wire -------------------------------
(* The proto3 wire format, driven by a schema table (C07).

   A schema S maps a message type name to its fields
       [num, name, kind \in {"scalar","enum","message","map"}, type, label \in {"singular","optional","repeated","oneof","map"},
        oneof (group name), key, value_kind, value]
   Decoding a byte string b as message type T yields a canonical TREE
       [ fields  |-> sequence ordered by field number of [num, vals],
         ut      |-> number of unknown fields in this message and all sub-messages,
         bad     |-> number of fields whose wire type does not fit the schema (in this message and sub-messages) ]
   where vals is the sequence of the field's values in order of appearance (packed and unpacked repeated scalars
   flattened alike); for a map field it is the SET of entries; for the members of a oneof only the member that
   appears last in the bytes is kept; a singular field that appears several times keeps its last value.
   Values: varints as their raw bytes, fixed64 as 8 bytes, fixed32 as 4 bytes, strings/bytes as bytes, messages as trees. *)
EXTENDS Integers, Sequences, FiniteSets, SequencesExt, FiniteSetsExt, TLC
\* ---------------------------------------------------------------- low level
RECURSIVE VarintEnd(_,_)
VarintEnd(b, pos) == IF pos > Len(b) THEN pos ELSE IF b[pos] >= 128 THEN VarintEnd(b, pos + 1) ELSE pos + 1   \* index after the varint
RECURSIVE VarintVal(_,_,_)
VarintVal(b, pos, end) == IF pos >= end THEN 0 ELSE (b[pos] % 128) + 128 * VarintVal(b, pos + 1, end)    \* small values only (tags, lengths)
Sub(b, lo, hi) == [ i \in 1..(hi - lo) |-> b[lo + i - 1] ]                                              \* bytes lo .. hi-1
\* raw fields of b[lo..hi): [num, wt, lo, hi] = payload range (for varints: the varint's own bytes); "ok" FALSE if truncated
RECURSIVE Raw(_,_,_)
Raw(b, pos, hi) ==
  IF pos >= hi THEN <<>> ELSE
  LET ke == VarintEnd(b, pos)  k == VarintVal(b, pos, ke)  num == k \div 8  wt == k % 8 IN
  IF ke > hi THEN << [num |-> -1, wt |-> 7, lo |-> pos, hi |-> hi] >>
  ELSE CASE wt = 0 -> LET ve == VarintEnd(b, ke) IN << [num |-> num, wt |-> 0, lo |-> ke, hi |-> ve] >> \o Raw(b, ve, hi)
         [] wt = 1 -> << [num |-> num, wt |-> 1, lo |-> ke, hi |-> ke + 8] >> \o Raw(b, ke + 8, hi)
         [] wt = 5 -> << [num |-> num, wt |-> 5, lo |-> ke, hi |-> ke + 4] >> \o Raw(b, ke + 4, hi)
         [] wt = 2 -> LET le == VarintEnd(b, ke)  n == VarintVal(b, ke, le) IN
                      IF le + n > hi THEN << [num |-> -1, wt |-> 7, lo |-> pos, hi |-> hi] >>
                      ELSE << [num |-> num, wt |-> 2, lo |-> le, hi |-> le + n] >> \o Raw(b, le + n, hi)
         [] OTHER -> << [num |-> -1, wt |-> 7, lo |-> pos, hi |-> hi] >>
VarintTypes == {"uint64", "int64", "uint32", "int32", "bool", "sint32", "sint64"}
WireOf(kind, type) == IF kind = "enum" \/ (kind = "scalar" /\ type \in VarintTypes) THEN 0
                      ELSE IF kind = "scalar" /\ type \in {"double", "fixed64", "sfixed64"} THEN 1
                      ELSE IF kind = "scalar" /\ type \in {"float", "fixed32", "sfixed32"} THEN 5 ELSE 2
RECURSIVE PackedVarints(_,_,_)
PackedVarints(b, pos, hi) == IF pos >= hi THEN <<>> ELSE LET e == VarintEnd(b, pos) IN << Sub(b, pos, e) >> \o PackedVarints(b, e, hi)
PackedFixed(b, lo, hi, w) == [ i \in 1..((hi - lo) \div w) |-> Sub(b, lo + w * (i - 1), lo + w * i) ]
RECURSIVE SumSeq(_)
SumSeq(s) == IF s = <<>> THEN 0 ELSE Head(s) + SumSeq(Tail(s))

\* ---------------------------------------------------------------- schema-driven decoding
RECURSIVE Tree(_,_,_,_,_)
\* values of one raw field r for a (kind, type); sub-messages become trees
ScalarVals(b, kind, type, r) ==
  LET w == WireOf(kind, type) IN
  IF w = 0 THEN (IF r.wt = 0 THEN << Sub(b, r.lo, r.hi) >> ELSE IF r.wt = 2 THEN PackedVarints(b, r.lo, r.hi) ELSE <<>>)
  ELSE IF w = 1 THEN (IF r.wt = 1 THEN << Sub(b, r.lo, r.hi) >> ELSE IF r.wt = 2 THEN PackedFixed(b, r.lo, r.hi, 8) ELSE <<>>)
  ELSE IF w = 5 THEN (IF r.wt = 5 THEN << Sub(b, r.lo, r.hi) >> ELSE IF r.wt = 2 THEN PackedFixed(b, r.lo, r.hi, 4) ELSE <<>>)
  ELSE (IF r.wt = 2 THEN << Sub(b, r.lo, r.hi) >> ELSE <<>>)
WireFits(kind, type, repeated, r) ==
  LET w == WireOf(kind, type) IN r.wt = w \/ (repeated /\ w \in {0, 1, 5} /\ r.wt = 2)
Tree(S, T, b, lo, hi) ==
  LET fs == S[T]
      rs == Raw(b, lo, hi)
      known == { fs[i].num : i \in DOMAIN fs }
      fieldOf(n) == fs[CHOOSE i \in DOMAIN fs : fs[i].num = n]
      \* oneof: of the members of a group only the one whose last occurrence is latest survives
      lastIdx(n) == Max({ i \in DOMAIN rs : rs[i].num = n } \cup {0})
      groupOf(n) == fieldOf(n).oneof
      survives(n) == fieldOf(n).label # "oneof" \/
                     \A m \in known : (fieldOf(m).label = "oneof" /\ groupOf(m) = groupOf(n)) => lastIdx(m) <= lastIdx(n)
      present == { n \in { rs[i].num : i \in DOMAIN rs } \cap known : survives(n) }
      nums == SortSeq(SetToSeq(present), LAMBDA x, y : x < y)
      mine(n) == SelectSeq(rs, LAMBDA r : r.num = n)
      valsOf(n) ==
        LET f == fieldOf(n)  m == mine(n) IN
        IF f.kind = "message" THEN [ j \in DOMAIN m |-> Tree(S, f.type, b, m[j].lo, m[j].hi) ]
        ELSE IF f.kind = "map" THEN
          [ j \in DOMAIN m |->
              LET es == Raw(b, m[j].lo, m[j].hi)
                  ks == SelectSeq(es, LAMBDA r : r.num = 1)  vs == SelectSeq(es, LAMBDA r : r.num = 2) IN
              [ k |-> IF ks = <<>> THEN <<>> ELSE ScalarVals(b, "scalar", f.key, ks[Len(ks)]),
                v |-> IF vs = <<>> THEN <<>>
                      ELSE IF f.value_kind = "message" THEN << Tree(S, f.value, b, vs[Len(vs)].lo, vs[Len(vs)].hi) >>
                      ELSE ScalarVals(b, f.value_kind, f.value, vs[Len(vs)]) ] ]
        ELSE FlattenSeq([ j \in DOMAIN m |-> ScalarVals(b, f.kind, f.type, m[j]) ])
      norm(n) == LET f == fieldOf(n)  v == valsOf(n) IN
                 IF f.kind = "map" THEN { v[j] : j \in DOMAIN v }
                 ELSE IF f.label \in {"repeated"} THEN v
                 ELSE IF v = <<>> THEN <<>> ELSE << v[Len(v)] >>
      subTrees == FlattenSeq([ j \in DOMAIN nums |->
                     LET f == fieldOf(nums[j])  v == valsOf(nums[j]) IN
                     IF f.kind = "message" THEN v
                     ELSE IF f.kind = "map" /\ f.value_kind = "message" THEN FlattenSeq([ x \in DOMAIN v |-> v[x].v ])
                     ELSE <<>> ])
      ownUnknown == Cardinality({ i \in DOMAIN rs : rs[i].num \notin known })
      ownBad == Cardinality({ i \in DOMAIN rs : rs[i].num \in known /\
                    LET f == fieldOf(rs[i].num) IN
                    IF f.kind \in {"message", "map"} THEN rs[i].wt # 2 ELSE ~WireFits(f.kind, f.type, f.label = "repeated", rs[i]) })
  IN [ fields |-> [ j \in DOMAIN nums |-> [num |-> nums[j], vals |-> norm(nums[j])] ],
       ut  |-> ownUnknown + SumSeq([ j \in DOMAIN subTrees |-> subTrees[j].ut ]),
       bad |-> ownBad + SumSeq([ j \in DOMAIN subTrees |-> subTrees[j].bad ]) ]
Decode(S, T, b) == Tree(S, T, b, 1, Len(b) + 1)
\* the content of a tree without the bookkeeping of unknown fields (what a conforming reader understands)
RECURSIVE Content(_)
Content(t) == t.fields     \* sub-trees keep their own ut/bad; compare with ContentEq below
\* equality of content, ignoring unknown-field counts at every level
RECURSIVE Strip(_,_,_)
Strip(S, T, t) ==
  LET fs == S[T]  fieldOf(n) == fs[CHOOSE i \in DOMAIN fs : fs[i].num = n] IN
  [ j \in DOMAIN t.fields |->
      LET n == t.fields[j].num  f == fieldOf(n)  v == t.fields[j].vals IN
      [num |-> n,
       vals |-> IF f.kind = "message" THEN [ x \in DOMAIN v |-> Strip(S, f.type, v[x]) ]
                ELSE IF f.kind = "map" /\ f.value_kind = "message"
                     THEN { [k |-> e.k, v |-> IF e.v = <<>> THEN <<>> ELSE << Strip(S, f.value, e.v[1]) >>] : e \in v }
                ELSE v] ]

\* ---------------------------------------------------------------- encoding (the independent schema-driven writer)
RECURSIVE EncVarint(_)
EncVarint(n) == IF n < 128 THEN <<n>> ELSE <<128 + (n % 128)>> \o EncVarint(n \div 128)
WTag(num, wt) == EncVarint(num * 8 + wt)
LenDelim(num, payload) == WTag(num, 2) \o EncVarint(Len(payload)) \o payload
D25 == <<0, 0, 0, 0, 0, 0, 4, 64>>       \* 2.5
D10 == <<0, 0, 0, 0, 0, 0, 240, 63>>     \* 1.0
DM3 == <<0, 0, 0, 0, 0, 0, 8, 192>>      \* -3.0
Str1 == <<97, 98>>                       \* "ab"
Str2 == <<120>>                          \* "x"
NegOne == <<255, 255, 255, 255, 255, 255, 255, 255, 255, 1>>   \* int64 -1 as a 10-byte varint
\* one scalar value (already encoded payload without tag) number k \in {1,2} of the given type
ScalarPayload(kind, type, k) ==
  IF kind = "enum" THEN (IF k = 1 THEN <<1>> ELSE <<2>>)
  ELSE IF type = "bool" THEN <<1>>
  ELSE IF type = "int64" THEN (IF k = 1 THEN <<7>> ELSE NegOne)
  ELSE IF type \in VarintTypes THEN (IF k = 1 THEN <<5>> ELSE <<172, 2>>)       \* 5, 300
  ELSE IF type = "double" THEN (IF k = 1 THEN D25 ELSE DM3)
  ELSE IF type = "string" THEN (IF k = 1 THEN Str1 ELSE Str2)
  ELSE <<>>
ScalarField(num, kind, type, k) ==
  LET w == WireOf(kind, type)  p == ScalarPayload(kind, type, k) IN
  IF w = 2 THEN LenDelim(num, p) ELSE WTag(num, w) \o p
RECURSIVE MsgBytes(_,_,_,_)
\* bytes of a sample message of type T: every non-oneof field set (repeated: two elements), for every oneof the
\* member chosen by `arm` (index into the group's members, modulo), sub-messages recursively down to depth d
FieldBytes(S, f, d, lay) ==
  IF f.kind = "message" THEN
     (IF d = 0 THEN LenDelim(f.num, <<>>)
      ELSE IF f.label = "repeated" THEN LenDelim(f.num, MsgBytes(S, f.type, d - 1, lay)) \o LenDelim(f.num, <<>>) \o LenDelim(f.num, MsgBytes(S, f.type, d - 1, [lay EXCEPT !.arm = @ + 1]))
      ELSE LenDelim(f.num, MsgBytes(S, f.type, d - 1, lay)))
  ELSE IF f.kind = "map" THEN
     LET entry(k) == ScalarField(1, "scalar", f.key, k) \o
                     (IF f.value_kind = "message" THEN LenDelim(2, IF d = 0 THEN <<>> ELSE MsgBytes(S, f.value, d - 1, [lay EXCEPT !.arm = @ + k]))
                      ELSE ScalarField(2, f.value_kind, f.value, k))
     IN LenDelim(f.num, entry(1)) \o LenDelim(f.num, entry(2))
  ELSE IF f.label = "repeated" THEN
     LET w == WireOf(f.kind, f.type)  p1 == ScalarPayload(f.kind, f.type, 1)  p2 == ScalarPayload(f.kind, f.type, 2) IN
     IF w = 2 THEN LenDelim(f.num, p1) \o LenDelim(f.num, p2)
     ELSE IF lay.unpacked THEN WTag(f.num, w) \o p1 \o WTag(f.num, w) \o p2
     ELSE LenDelim(f.num, p1 \o p2)
  ELSE ScalarField(f.num, f.kind, f.type, 1)
MsgBytes(S, T, d, lay) ==
  LET fs == S[T]
      groups == { fs[i].oneof : i \in { j \in DOMAIN fs : fs[j].label = "oneof" } }
      members(g) == SelectSeq(fs, LAMBDA f : f.label = "oneof" /\ f.oneof = g)
      chosen(g) == members(g)[(lay.arm % Len(members(g))) + 1].num
      sel == SelectSeq(fs, LAMBDA f : f.label # "oneof" \/ f.num = chosen(f.oneof))
      ordered == IF lay.rev THEN Reverse(sel) ELSE sel
      body == FlattenSeq([ i \in DOMAIN ordered |-> FieldBytes(S, ordered[i], d, lay) ])
  IN (IF lay.unknown THEN WTag(1999, 0) \o <<1>> \o LenDelim(1998, <<1, 2, 3>>) ELSE <<>>) \o body

\* ---------------------------------------------------------------- canonical re-encoding of a decoded tree
\* fields in number order, repeated scalars unpacked, map entries in some order, canonical tags/lengths
RECURSIVE EncodeTree(_,_,_)
EncVal(S, kind, type, num, v) ==
  IF kind = "message" THEN LenDelim(num, EncodeTree(S, type, v))
  ELSE LET w == WireOf(kind, type) IN IF w = 2 THEN LenDelim(num, v) ELSE WTag(num, w) \o v
EncodeTree(S, T, t) ==
  LET fs == S[T]  fieldOf(n) == fs[CHOOSE i \in DOMAIN fs : fs[i].num = n] IN
  FlattenSeq([ j \in DOMAIN t.fields |->
    LET n == t.fields[j].num  f == fieldOf(n)  v == t.fields[j].vals IN
    IF f.kind = "map" THEN
      FlattenSeq([ x \in DOMAIN SetToSeq(v) |-> LET e == SetToSeq(v)[x] IN
         LenDelim(n, (IF e.k = <<>> THEN <<>> ELSE EncVal(S, "scalar", f.key, 1, e.k[1]))
                     \o (IF e.v = <<>> THEN <<>> ELSE EncVal(S, f.value_kind, f.value, 2, e.v[1]))) ])
    ELSE FlattenSeq([ x \in DOMAIN v |-> EncVal(S, f.kind, f.type, n, v[x]) ]) ])
\* only one field set
OneFieldBytes(S, T, i, d, lay) == FieldBytes(S, S[T][i], d, lay)
=============================================================================
