------------------------------- MODULE Rat -------------------------------
(* Exact extended rationals for TLC (32-bit ints, no cross-type comparison).
   EVERY number is a pair <<p,q>>: q >= 1 and gcd(p,q) = 1 for finite values (integers are <<n,1>>),
   <<1,0>> = +infinity, <<-1,0>> = -infinity, <<0,0>> = NaN.  Normal forms are unique, so TLA+ equality
   is numeric equality. *)
EXTENDS Integers, Sequences
Abs(n) == IF n < 0 THEN -n ELSE n
RECURSIVE Gcd(_,_)
Gcd(a, b) == IF b = 0 THEN Abs(a) ELSE Gcd(Abs(b), Abs(a) % Abs(b))
Lcm(a, b) == IF a = 0 \/ b = 0 THEN 0 ELSE Abs(a * b) \div Gcd(a, b)
R(n) == <<n, 1>>
Zero == <<0, 1>>
One == <<1, 1>>
PInf == <<1, 0>>
NInf == <<-1, 0>>
NaN == <<0, 0>>
Err == <<0, -1>>   \* "no value" marker of the same shape as a number (evaluation failed)
Mk(p, q) == \* q # 0
  LET s == IF q < 0 THEN -1 ELSE 1  g == Gcd(p, q) IN << (s * p) \div g, (s * q) \div g >>
IsFin(x) == x[2] > 0
IsInt(x) == x[2] = 1
\* The SDK's tolerances are the FLOATS 1e-6 and 1e-7, which are not dyadic-small; the trace names them by tokens
\*   <<1,-6>> = 1e-6, <<-1,-6>> = -1e-6, <<1,-7>> = 1e-7, <<-1,-7>> = -1e-7   (exactly those f64 values)
\* so that behaviour exactly AT the tolerance can be recorded and judged. Tokens only pass through the
\* identities x+0, x*1, x*(-1) and the tolerance comparisons; any other arithmetic on them yields Unrep.
\* <<1,-30>> / <<-1,-30>> = +-1e30 (a finite magnitude far outside the exact domain; only compared for equality)
IsTol(x) == x[2] \in {-6, -7} /\ x[1] \in {1, -1}
\* arithmetic is total: an operand that is not a finite number (infinity, NaN, Err, Unrep) yields <<0,-2>> (Unrep)
RAdd(a, b) == IF IsTol(a) /\ b = <<0, 1>> THEN a ELSE IF IsTol(b) /\ a = <<0, 1>> THEN b
              ELSE IF a[2] <= 0 \/ b[2] <= 0 THEN <<0, -2>>
              ELSE IF a[2] = 1 /\ b[2] = 1 THEN <<a[1] + b[1], 1>>
              ELSE LET l == Lcm(a[2], b[2]) IN Mk(a[1] * (l \div a[2]) + b[1] * (l \div b[2]), l)
RNeg(a) == <<-a[1], a[2]>>
RSub(a, b) == RAdd(a, RNeg(b))
RMul(a, b) == IF IsTol(a) /\ b \in {<<1, 1>>, <<-1, 1>>} THEN <<a[1] * b[1], a[2]>>
              ELSE IF IsTol(b) /\ a \in {<<1, 1>>, <<-1, 1>>} THEN <<a[1] * b[1], b[2]>>
              ELSE IF (IsTol(a) /\ b = <<0, 1>>) \/ (IsTol(b) /\ a = <<0, 1>>) THEN <<0, 1>>
              ELSE IF a[2] <= 0 \/ b[2] <= 0 THEN <<0, -2>>
              ELSE IF a[2] = 1 /\ b[2] = 1 THEN <<a[1] * b[1], 1>>
              ELSE LET g1 == Gcd(a[1], b[2]) g2 == Gcd(b[1], a[2])
                   IN Mk((a[1] \div g1) * (b[1] \div g2), (a[2] \div g2) * (b[2] \div g1))
RInv(a) == Mk(a[2], a[1])                                 \* a # 0
RDiv(a, b) == RMul(a, RInv(b))
RLess(a, b) == a[1] * b[2] < b[1] * a[2]                  \* finite a, b
RLeq(a, b) == a[1] * b[2] <= b[1] * a[2]
RSign(a) == IF a[1] > 0 THEN 1 ELSE IF a[1] < 0 THEN -1 ELSE 0
RAbs(a) == <<Abs(a[1]), a[2]>>
RFloor(a) == a[1] \div a[2]                               \* Int; TLA+ \div rounds toward -infinity
RCeil(a) == IF a[1] % a[2] = 0 THEN a[1] \div a[2] ELSE (a[1] \div a[2]) + 1
\* extended order (NaN excluded): works because  p1*q2 <= p2*q1  also orders <<-1,0>>, finite, <<1,0>>
XLeq(a, b) == IF a[2] = 0 /\ b[2] = 0 THEN a[1] <= b[1] ELSE a[1] * b[2] <= b[1] * a[2]
XLess(a, b) == a # b /\ XLeq(a, b)
\* Comparisons with the SDK's tolerances 10^-6 / 10^-7, written so that TLC's 32-bit integers cannot
\* overflow for any finite a = <<p,q>> with 0 < q < 2^31:  p >= 2148 already implies p*10^6 > q.
RLessE6(a) == IF a[2] = -6 THEN a[1] < 0                  \* 1e-6 < 1e-6 is false, -1e-6 < 1e-6
              ELSE IF a[2] = -7 THEN TRUE                 \* +-1e-7 < 1e-6
              ELSE IF a[1] <= 0 THEN TRUE ELSE IF a[1] >= 2148 THEN FALSE ELSE a[1] * 1000000 < a[2]          \* a <  10^-6
RLeqE7(a)  == IF a[2] = -7 THEN TRUE                      \* +-1e-7 <= 1e-7
              ELSE IF a[2] = -6 THEN a[1] < 0             \* 1e-6 <= 1e-7 is false
              ELSE IF a[1] <= 0 THEN TRUE ELSE IF a[1] >= 215  THEN FALSE ELSE a[1] * 10000000 <= a[2]        \* a <= 10^-7
Unrep == <<0, -2>>  \* harness marker: a finite float that is not representable in the trace's number domain
IsNum(x) == x[2] >= 0 /\ x # NaN                                  \* a proper extended rational (not NaN / Err / Unrep)
RMin(a, b) == IF RLeq(a, b) THEN a ELSE b
RMax(a, b) == IF RLeq(a, b) THEN b ELSE a
RECURSIVE RSumSeq(_)
RSumSeq(s) == IF s = <<>> THEN Zero ELSE RAdd(Head(s), RSumSeq(Tail(s)))
=============================================================================
