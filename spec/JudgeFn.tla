------------------------------- MODULE JudgeFn -------------------------------
(* Named clauses for function-level events (C01, C02, C03/C04 function level, C16).
   Each Clauses* operator returns a record  clause name -> BOOLEAN  for one recorded event e;
   an event is accepted iff every clause is TRUE.  All clauses are total on well-shaped events. *)
EXTENDS Msg, Interval
SeqToSet(s) == { s[i] : i \in DOMAIN s }
\* state / replacement maps arrive as sequences of <<id, value>>
PairIds(seq) == { seq[i][1] : i \in DOMAIN seq }
PairFun(seq) == [ v \in PairIds(seq) |-> seq[CHOOSE i \in DOMAIN seq : seq[i][1] = v][2] ]
St(seq) == PairFun(seq)
Tag(e) == e.out.tag
Ok(e) == e.out.tag = "ok"
NoPanic(e) == e.out.tag \notin {"panic", "hang", "crash", "harness_unknown_event"}

\* ---- C01 ----------------------------------------------------------------------------------
ClausesEval(e) ==
  LET st == St(e.in.st)  missing == ~(MsgIds(e.in.f) \subseteq DOMAIN st) IN
  [ no_panic          |-> NoPanic(e),
    fails_iff_missing |-> (Tag(e) = "err") <=> missing,
    value             |-> Ok(e) => e.out.value = PEval(Denote(e.in.f), st),
    ids               |-> Ok(e) => SeqToSet(e.out.ids) = MsgIds(e.in.f) ]

\* ---- C03 (function level) ----------------------------------------------------------------
NonzeroIds(f) == UNION { Range(RawTerms(f)[i].ids) : i \in { j \in DOMAIN RawTerms(f) : RawTerms(f)[j].c # Zero } }
ClausesPartial(e) ==
  LET st == St(e.in.st) IN
  [ no_panic |-> NoPanic(e),
    no_error |-> Ok(e),
    value    |-> Ok(e) => Denote(e.out.f) = PPartial(Denote(e.in.f), st),
    no_fixed_mentioned |-> Ok(e) => MsgIds(e.out.f) \cap DOMAIN st = {},
    ids      |-> Ok(e) => /\ (Ids(Denote(e.in.f)) \cap DOMAIN st) \subseteq SeqToSet(e.out.ids)
                          /\ SeqToSet(e.out.ids) \subseteq (MsgIds(e.in.f) \cap DOMAIN st) ]

\* ---- C04 (function level) ----------------------------------------------------------------
ReplFun(seq) == [ v \in PairIds(seq) |-> Denote(PairFun(seq)[v]) ]
IterCanon(it) == Canon([ i \in DOMAIN it |-> [ids |-> it[i].ids, c |-> it[i].c] ])
IterSorted(it) == \A i \in DOMAIN it : \A j \in 1..(Len(it[i].ids) - 1) : it[i].ids[j] <= it[i].ids[j+1]
ClausesSubst(e) ==
  [ no_panic    |-> NoPanic(e),
    no_error    |-> Ok(e),
    subst_value |-> Ok(e) => Denote(e.out.f) = PSubst(Denote(e.in.f), ReplFun(e.in.repl)),
    iter_sum    |-> Ok(e) => IterCanon(e.out.iter) = Denote(e.out.f) /\ IterSorted(e.out.iter) ]

\* ---- C02 ----------------------------------------------------------------------------------
DenOp(o) == CASE o.k = "num" -> PConst(o.c)
              [] o.k \in {"dv", "param"} -> PVar(o.id)
              [] OTHER -> Denote(o.f)
Apply(op, a, b) == CASE op = "add" -> PAdd(a, b) [] op = "sub" -> PSub(a, b) [] op = "mul" -> PMul(a, b)
                     [] op = "neg" -> PNeg(a)
ClausesArith(e) ==
  LET expect == Apply(e.in.op, DenOp(e.in.a), DenOp(e.in.b)) IN
  [ no_panic    |-> NoPanic(e),
    defined     |-> Tag(e) # "undefined",
    value       |-> Ok(e) => Denote(e.out.f) = expect,
    iter_sorted |-> Ok(e) => IterSorted(e.out.iter),
    iter_sum    |-> Ok(e) => IterCanon(e.out.iter) = Denote(e.out.f),
    holds_degree |-> Ok(e) => e.out.degree >= Degree(expect) ]

\* ---- growth: degree / down-casts / used ids ---------------------------------------------
ClausesFnInfo(e) ==
  LET p == Denote(e.in.f) IN
  [ no_panic |-> NoPanic(e),
    used     |-> Ok(e) => SeqToSet(e.out.used) = MsgIds(e.in.f),
    degree_upper |-> Ok(e) => e.out.degree >= Degree(p),
    as_linear    |-> Ok(e) => (e.out.as_linear # <<>> => Denote(e.out.as_linear[1]) = p),
    as_linear_some |-> Ok(e) => (Degree(p) <= 1 /\ e.in.f.kind \in {"constant", "linear"} => e.out.as_linear # <<>>),
    as_constant  |-> Ok(e) => (e.out.as_constant # <<>> => PConst(e.out.as_constant[1]) = p),
    iter_sum     |-> Ok(e) => IterCanon(e.out.iter) = p /\ IterSorted(e.out.iter) ]

\* ---- C16 ----------------------------------------------------------------------------------
ClausesBound(e) ==
  LET op == e.in.op  a == e.in.a IN
  IF op = "new" THEN
    [ no_panic |-> NoPanic(e), accept_iff_valid |-> Ok(e) <=> Valid(a), same |-> Ok(e) => e.out.b = a ]
  ELSE IF op \in {"add", "mul"} THEN
    LET h == IF op = "add" THEN HullAdd(a, e.in.b) ELSE HullMul(a, e.in.b) IN
    [ no_panic |-> NoPanic(e), valid_interval |-> Ok(e) /\ Valid(e.out.b), encloses |-> Ok(e) /\ Encloses(e.out.b, h) ]
  ELSE IF op = "pow" THEN
    [ no_panic |-> NoPanic(e), valid_interval |-> Ok(e) /\ Valid(e.out.b), encloses |-> Ok(e) /\ Encloses(e.out.b, HullPow(a, e.in.n)) ]
  ELSE IF op = "scale" THEN
    [ no_panic |-> NoPanic(e), valid_interval |-> Ok(e) /\ Valid(e.out.b), encloses |-> Ok(e) /\ Encloses(e.out.b, HullScale(a, e.in.k)) ]
  ELSE IF op = "shift" THEN
    [ no_panic |-> NoPanic(e), valid_interval |-> Ok(e) /\ Valid(e.out.b), encloses |-> Ok(e) /\ Encloses(e.out.b, HullShift(a, e.in.k)) ]
  ELSE IF op = "int_round" THEN
    [ no_panic |-> NoPanic(e), int_round |-> Ok(e) /\ IntRoundOK(a, e.out.b) ]
  ELSE IF op = "nearest" THEN
    [ no_panic |-> NoPanic(e), nearest |-> Ok(e) /\ e.out.x = NearestToZero(a) ]
  ELSE IF op = "contains" THEN
    [ no_panic |-> NoPanic(e), contains |-> Ok(e) /\ (e.out.r <=> InTol7(e.in.x, a)) ]
  ELSE IF op = "intersection" THEN
    LET lo == XMax(a.lo, e.in.b.lo)  hi == XMin(a.hi, e.in.b.hi)  c == [lo |-> lo, hi |-> hi] IN
    [ no_panic |-> NoPanic(e),
      intersection |-> IF Valid(c) THEN Ok(e) /\ e.out.b = c ELSE Tag(e) = "empty" ]
  ELSE [ known_op |-> FALSE ]

\* sample points of a box (sequence of <<id, [lo,hi]>>) for the pointwise enclosure of evaluate_bound
Big == R(16)
PtsOf(b) == { x \in { b.lo, b.hi, Zero, One, R(-1), <<1,2>>, <<-1,2>>, R(2), R(-2), Big, RNeg(Big),
                      IF IsFin(b.lo) /\ IsFin(b.hi) THEN RMul(RAdd(b.lo, b.hi), <<1,2>>) ELSE Zero } :
              IsFin(x) /\ In(x, b) }
BoxFun(box) == PairFun(box)
SamplePoints(ids, box) ==
  LET bf == BoxFun(box)  bnd(v) == IF v \in DOMAIN bf THEN bf[v] ELSE Unbounded IN
  { s \in [ids -> UNION { PtsOf(bnd(v)) : v \in ids }] : \A v \in ids : s[v] \in PtsOf(bnd(v)) }
ClausesEvalBound(e) ==
  LET p == Denote(e.in.f)  ids == MsgIds(e.in.f) IN
  [ no_panic        |-> NoPanic(e),
    valid_interval  |-> Ok(e) /\ Valid(e.out.b),
    contains_points |-> Ok(e) /\ Valid(e.out.b) /\ \A s \in SamplePoints(ids, e.in.box) : In(PEval(p, s), e.out.b) ]

\* content factor: a > 0, a * c integral for every coefficient, and a = lcm(denominators) / gcd(numerators)
RECURSIVE GcdSet(_), LcmSet(_)
GcdSet(S) == IF S = {} THEN 0 ELSE LET x == CHOOSE y \in S : TRUE IN Gcd(x, GcdSet(S \ {x}))
LcmSet(S) == IF S = {} THEN 1 ELSE LET x == CHOOSE y \in S : TRUE IN Lcm(x, LcmSet(S \ {x}))
\* "all coefficients of a function" = the coefficients of the terms as the message lists them (non-zero ones);
\* a message that repeats a monomial is judged term by term, so the clause does not depend on whether an
\* implementation merges repeated terms first (both readings agree on messages without repeated monomials).
ContentFactor(cs) == IF cs = {} THEN One ELSE Mk(LcmSet({ c[2] : c \in cs }), GcdSet({ c[1] : c \in cs }))
ClausesContent(e) ==
  LET ts == RawTerms(e.in.f)  raw == { ts[i].c : i \in DOMAIN ts } \ {Zero}
      p == Denote(e.in.f)  merged == { p[m] : m \in DOMAIN p }  a == e.out.approx IN
  [ no_panic        |-> NoPanic(e),
    no_error        |-> Ok(e),
    factor_integral |-> Ok(e) => IsNum(a) /\ IsFin(a) /\ a[1] > 0 /\ \A c \in merged : RMul(a, c)[2] = 1,
    factor_minimal  |-> Ok(e) => a \in {ContentFactor(raw), ContentFactor(merged)} ]
=============================================================================
