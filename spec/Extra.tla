------------------------------- MODULE Extra -------------------------------
(* Growth of the specification beyond the listed properties (clauses here decide no property: a rejection is
   reported in the evidence as an extension-clause rejection, never as a VIOLATION):
     fmt             Display of functions (format.rs): graded-lex order, sign and coefficient conventions
     ctor            the normalising constructors Linear::new, Quadratic::from_iter, Polynomial::from_iter
     samples_helpers Samples::add_sample / iter / transpose and SampledValues::get *)
EXTENDS JudgeInst
ExtraEvents == {"fmt", "ctor", "samples_helpers"}
\* ---- number formatting of Rust's `{}` for f64 values that are multiples of 1/8 ------------------------------------
RECURSIVE StripZeros(_)
StripZeros(n) == IF n % 10 = 0 /\ n > 0 THEN StripZeros(n \div 10) ELSE n
RDec(x) ==
  LET neg == x[1] < 0  a == IF neg THEN -x[1] ELSE x[1]  whole == a \div x[2]
      fr1000 == ((a % x[2]) * 1000) \div x[2]                       \* three decimals are exact for q | 8
      digs == StripZeros(fr1000)
      pad == IF fr1000 < 10 THEN "00" ELSE IF fr1000 < 100 THEN "0" ELSE ""
  IN (IF neg THEN "-" ELSE "") \o ToString(whole) \o (IF x[2] = 1 THEN "" ELSE "." \o pad \o ToString(digs))
RECURSIVE VarsStr(_)
VarsStr(ids) == IF Len(ids) = 1 THEN "x" \o ToString(ids[1]) ELSE "x" \o ToString(ids[1]) \o "*" \o VarsStr(Tail(ids))
FmtTerm(ids, c) == IF ids = <<>> THEN RDec(c)
                   ELSE (IF c = R(-1) THEN "-" ELSE IF c = One THEN "" ELSE RDec(c) \o "*") \o VarsStr(ids)
RECURSIVE SeqLess(_,_)
SeqLess(a, b) == IF a = <<>> THEN b # <<>> ELSE IF b = <<>> THEN FALSE
                 ELSE IF a[1] # b[1] THEN a[1] < b[1] ELSE SeqLess(Tail(a), Tail(b))
TermBefore(s, u) == IF Len(s.ids) # Len(u.ids) THEN Len(s.ids) > Len(u.ids) ELSE SeqLess(s.ids, u.ids)
RECURSIVE FmtRest(_)
FmtRest(ts) == IF ts = <<>> THEN ""
               ELSE (IF ts[1].c[1] < 0 THEN " - " \o FmtTerm(ts[1].ids, RNeg(ts[1].c)) ELSE " + " \o FmtTerm(ts[1].ids, ts[1].c)) \o FmtRest(Tail(ts))
FmtTerms(raw) ==
  LET nz == SelectSeq([ i \in DOMAIN raw |-> [ids |-> Sort(raw[i].ids), c |-> raw[i].c] ], LAMBDA s : s.c # Zero)
      ts == SortSeq(nz, TermBefore)
  IN IF ts = <<>> THEN "0" ELSE FmtTerm(ts[1].ids, ts[1].c) \o FmtRest(Tail(ts))
FmtFn(f) == IF f.kind = "constant" THEN RDec(f.c) ELSE FmtTerms(RawTerms(f))
NoRepeatedMonomial(f) == LET ts == RawTerms(f) IN \A i, j \in DOMAIN ts : (i # j /\ ts[i].c # Zero /\ ts[j].c # Zero) => Sort(ts[i].ids) # Sort(ts[j].ids)
ClausesFmt(e) ==
  [ no_panic |-> NoPanic(e),
    display  |-> (Ok(e) /\ NoRepeatedMonomial(e.in.f)) => e.out.s = FmtFn(e.in.f) ]
\* ---- constructors ----------------------------------------------------------------------------------------------------
StrictlyInc(s) == \A i \in 1..(Len(s) - 1) : s[i] < s[i + 1]
ClausesCtor(e) ==
  IF ~Ok(e) THEN [ no_panic |-> NoPanic(e) ]
  ELSE IF e.in.kind = "linear_new" THEN
    [ value |-> Denote(e.out.f) = Canon([ i \in DOMAIN e.in.terms |-> [ids |-> <<e.in.terms[i][1]>>, c |-> e.in.terms[i][2]] ] \o << [ids |-> <<>>, c |-> e.in.constant] >>),
      normal_form |-> StrictlyInc([ i \in DOMAIN e.out.f.terms |-> e.out.f.terms[i].id ]) /\ \A i \in DOMAIN e.out.f.terms : e.out.f.terms[i].c # Zero ]
  ELSE IF e.in.kind = "quadratic_from_iter" THEN
    [ value |-> Denote(e.out.f) = Canon([ i \in DOMAIN e.in.entries |-> [ids |-> <<e.in.entries[i][1], e.in.entries[i][2]>>, c |-> e.in.entries[i][3]] ]),
      normal_form |-> /\ \A i \in DOMAIN e.out.f.rows : e.out.f.rows[i] <= e.out.f.columns[i]
                      /\ \A i, j \in DOMAIN e.out.f.rows : i < j => (e.out.f.rows[i] < e.out.f.rows[j] \/ (e.out.f.rows[i] = e.out.f.rows[j] /\ e.out.f.columns[i] < e.out.f.columns[j])) ]
  ELSE
    [ value |-> Denote(e.out.f) = Canon([ i \in DOMAIN e.in.terms |-> [ids |-> e.in.terms[i][1], c |-> e.in.terms[i][2]] ]),
      normal_form |-> /\ \A i \in DOMAIN e.out.f.terms : e.out.f.terms[i].c # Zero /\ e.out.f.terms[i].ids = Sort(e.out.f.terms[i].ids)
                      /\ \A i, j \in DOMAIN e.out.f.terms : i # j => e.out.f.terms[i].ids # e.out.f.terms[j].ids ]
\* ---- Samples helpers -----------------------------------------------------------------------------------------------------
ClausesSamplesHelpers(e) ==
  IF ~Ok(e) THEN [ no_panic |-> NoPanic(e) ]
  ELSE LET adds == e.in.adds  S == e.out.samples
           sids == { adds[i][1] : i \in DOMAIN adds }
           stOf(s) == St(adds[CHOOSE i \in DOMAIN adds : adds[i][1] = s][2])
           tr == PairFun(e.out.transposed) IN
  [ ids |-> SampleIds(S) = sids /\ SeqToSet(e.out.ids) = sids /\ Len(e.out.ids) = Cardinality(sids),
    state_of_each |-> \A s \in sids : StateOfSample(S, s) = stOf(s),
    equal_states_grouped |-> \A i, j \in DOMAIN S : i # j => St(S[i].state[1]) # St(S[j].state[1]),
    transpose |-> \A s \in sids : \A v \in DOMAIN stOf(s) : v \in DOMAIN tr /\ s \in DOMAIN SvFun(tr[v]) /\ SvFun(tr[v])[s] = stOf(s)[v],
    transpose_domain |-> DOMAIN tr = UNION { DOMAIN stOf(s) : s \in sids } ]
ClausesExtra(e) == CASE e.ev = "fmt" -> ClausesFmt(e) [] e.ev = "ctor" -> ClausesCtor(e) [] e.ev = "samples_helpers" -> ClausesSamplesHelpers(e)
=============================================================================
