------------------------------- MODULE Gen_Wire -------------------------------
(* Byte strings produced by the specification's schema-driven encoder (Wire!MsgBytes) for EVERY message type of
   the published schema: empty message, all fields set (every oneof arm), each field alone; each in the layouts
   reversed field order / with unknown fields injected / with unpacked repeated scalars. *)
EXTENDS Wire, Json, IOUtils
CONSTANT Depth
VARIABLES vec, phase
S == JsonDeserialize(IOEnv.SCHEMA).messages
Types == DOMAIN S
Lays == [rev : BOOLEAN, unknown : BOOLEAN, unpacked : BOOLEAN, arm : 0..3]
Ev(T, bytes, lay, what) == [ev |-> "wire_decode", in |-> [type |-> T, bytes |-> bytes, layout |-> lay, what |-> what]]
Plain == [rev |-> FALSE, unknown |-> FALSE, unpacked |-> FALSE, arm |-> 0]
Init == vec = <<>> /\ phase = 0
Next == /\ phase = 0 /\ phase' = 1
        /\ \E T \in Types :
             \/ vec' = Ev(T, <<>>, Plain, "empty")
             \/ \E lay \in Lays, d \in 1..Depth : vec' = Ev(T, MsgBytes(S, T, d, lay), lay, "all")
             \/ \E i \in DOMAIN S[T], lay \in { l \in Lays : ~l.rev /\ l.arm = 0 } : vec' = Ev(T, (IF lay.unknown THEN WTag(1999, 0) \o <<1>> ELSE <<>>) \o OneFieldBytes(S, T, i, 1, lay), lay, "one")
Emit == phase = 1 => PrintT("VEC " \o ToJson(vec))
=============================================================================
