CONSTANTS MaxWidth = 600 HistLen = 3
INIT Init
NEXT DoEvaluate
INVARIANT Emit
CHECK_DEADLOCK FALSE
