CONSTANTS MaxWidth = 600 HistLen = 3
INIT Init
NEXT DoSamples
INVARIANT Emit
CHECK_DEADLOCK FALSE
