CONSTANTS MaxLin = 1 MaxQuad = 1 MaxQuadLin = 1 MaxMono = 2 MaxMonoLen = 2
INIT Init
NEXT DoEvalBound
INVARIANT Emit
CHECK_DEADLOCK FALSE
