CONSTANTS MaxOps = 3 Dir = "work/C20/arch" Rich = FALSE
INIT Init
NEXT Next
INVARIANT Emit
CHECK_DEADLOCK FALSE
