CONSTANTS MaxWidth = 600 HistLen = 3
INIT Init
NEXT DoSlack
INVARIANT Emit
CHECK_DEADLOCK FALSE
