CONSTANTS MaxWidth = 600 HistLen = 3
INIT Init
NEXT DoQubo
INVARIANT Emit
CHECK_DEADLOCK FALSE
