CONSTANTS MaxWidth = 600 HistLen = 3
INIT Init
NEXT DoLogEncode
INVARIANT Emit
CHECK_DEADLOCK FALSE
