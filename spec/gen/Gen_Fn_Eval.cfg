CONSTANTS MaxLin = 3 MaxQuad = 2 MaxQuadLin = 1 MaxMono = 2 MaxMonoLen = 3
INIT Init
NEXT DoEval
INVARIANT Emit
CHECK_DEADLOCK FALSE
