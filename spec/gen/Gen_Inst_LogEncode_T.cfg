CONSTANTS MaxWidth = 4096 HistLen = 4
INIT Init
NEXT DoLogEncode
INVARIANT Emit
CHECK_DEADLOCK FALSE
