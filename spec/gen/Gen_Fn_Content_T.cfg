CONSTANTS MaxLin = 2 MaxQuad = 1 MaxQuadLin = 1 MaxMono = 2 MaxMonoLen = 2
INIT Init
NEXT DoContent
INVARIANT Emit
CHECK_DEADLOCK FALSE
