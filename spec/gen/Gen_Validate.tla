------------------------------- MODULE Gen_Validate -------------------------------
(* Fault injection into well-formed instances (C08): every single fault of every rule at every position,
   alone and in pairs (depth 2), on base instances with hints, dependencies, removed constraints and absent
   bounds.  Each reached raw instance is emitted for validate(), the typed conversion and (as a parametric
   instance) ParametricInstance::validate(). *)
EXTENDS Msg, TLC, Json
CONSTANT Depth
VARIABLES vec, phase
L(ts, c) == [kind |-> "linear", terms |-> ts, constant |-> c]
T(i, c) == [id |-> i, c |-> c]
V(id, kind, bound) == [id |-> id, kind |-> kind, bound |-> bound, fixed |-> <<>>, name |-> <<>>, subs |-> <<>>, params |-> <<>>, desc |-> <<>>]
C(id, eq, f) == [id |-> id, eq |-> eq, f |-> f, name |-> <<"c">>, subs |-> <<id>>, params |-> <<>>, desc |-> <<>>]
B(lo, hi) == << [lo |-> lo, hi |-> hi] >>
Rm(c, reason) == [c |-> <<c>>, reason |-> reason, rparams |-> << <<"k", "v">> >>]
Base1 == [ sense |-> "min",
  vars |-> << V(1, "binary", <<>>), V(2, "integer", B(R(0), R(3))), V(3, "continuous", <<>>), V(4, "continuous", B(R(-1), PInf)), V(5, "integer", <<>>) >>,
  objective |-> << L(<< T(1, R(1)), T(2, R(2)) >>, R(0)) >>,
  constraints |-> << C(10, "eq", << L(<< T(1, R(1)), T(2, R(1)) >>, R(-1)) >>),
                     C(11, "le", << [kind |-> "quadratic", rows |-> <<1>>, columns |-> <<3>>, values |-> <<R(2)>>, linear |-> <<>>] >>) >>,
  removed |-> << Rm(C(12, "le", << L(<< T(3, R(1)) >>, R(0)) >>), "r1"), Rm(C(13, "eq", << [kind |-> "constant", c |-> R(0)] >>), "r2") >>,
  deps |-> << <<4, L(<< T(3, R(2)) >>, R(1))>> >>,
  params |-> <<>>,
  hints |-> << [onehot |-> << [cid |-> 10, vars |-> <<1, 2>>] >>, sos1 |-> << [bin |-> 10, bigm |-> <<11>>, vars |-> <<1, 2>>] >>] >>,
  description |-> <<>>, parameters |-> <<>> ]
Base2 == [ sense |-> "max",
  vars |-> << V(7, "continuous", B(NInf, R(2))), V(3, "binary", B(R(0), R(1))) >>,
  objective |-> << [kind |-> "polynomial", terms |-> << [ids |-> <<7, 3, 3>>, c |-> R(1)] >>] >>,
  constraints |-> << C(1, "le", << L(<< T(7, R(1)) >>, R(-2)) >>) >>,
  removed |-> <<>>, deps |-> <<>>, params |-> <<>>, hints |-> <<>>, description |-> <<>>, parameters |-> <<>> ]
\* functions that mention the undefined variable 99 at every place a message can mention a variable
UndefFns == << L(<< T(99, R(1)) >>, R(0)),
               [kind |-> "quadratic", rows |-> <<99>>, columns |-> <<1>>, values |-> <<R(1)>>, linear |-> <<>>],
               [kind |-> "quadratic", rows |-> <<1>>, columns |-> <<99>>, values |-> <<R(1)>>, linear |-> <<>>],
               [kind |-> "quadratic", rows |-> <<1>>, columns |-> <<1>>, values |-> <<R(1)>>, linear |-> << L(<< T(99, R(2)) >>, R(0)) >>],
               [kind |-> "polynomial", terms |-> << [ids |-> <<1, 99, 1>>, c |-> R(1)] >>],
               L(<< T(1, R(1)), T(99, R(0)) >>, R(0)) >>
Undef == UndefFns[1]
NoFn == [kind |-> "none"]
F(t, w, i, j) == [t |-> t, w |-> w, i |-> i, j |-> j]
SetAt(seq, i, x) == [seq EXCEPT ![i] = x]
Faults(raw) ==
     { F("dupvar", "", i, j) : i \in DOMAIN raw.vars, j \in DOMAIN raw.vars } 
  \cup { F("dupcon", "aa", i, j) : i \in DOMAIN raw.constraints, j \in DOMAIN raw.constraints }
  \cup { F("dupcon", "ar", i, j) : i \in DOMAIN raw.constraints, j \in DOMAIN raw.removed }
  \cup { F("dupcon", "rr", i, j) : i \in DOMAIN raw.removed, j \in DOMAIN raw.removed }
  \cup { F("undef", w, 0, 0) : w \in {"depkey", "onehot_cid", "onehot_var", "sos1_bin", "sos1_bigm", "sos1_var"} }
  \cup { F("undef", w, 0, j) : w \in {"objective", "depfn"}, j \in DOMAIN UndefFns }
  \cup { F("undef", "con", i, j) : i \in DOMAIN raw.constraints, j \in DOMAIN UndefFns } \cup { F("undef", "rem", i, j) : i \in DOMAIN raw.removed, j \in DOMAIN UndefFns }
  \cup { F("unset", w, 0, 0) : w \in {"sense", "objective_missing", "objective_oneof", "dep_oneof"} }
  \cup { F("unset", w, i, 0) : w \in {"con_fn_missing", "con_fn_oneof", "con_eq"}, i \in DOMAIN raw.constraints }
  \cup { F("unset", w, i, 0) : w \in {"rem_c_missing", "rem_fn_missing", "rem_fn_oneof", "rem_eq"}, i \in DOMAIN raw.removed }
  \cup { F("unset", "var_kind", i, 0) : i \in DOMAIN raw.vars }
  \cup { F("bound", w, i, 0) : w \in {"nan_lo", "nan_hi", "lo_pinf", "hi_ninf", "lo_gt_hi", "point", "zero", "negzero", "absent", "free"}, i \in DOMAIN raw.vars }
  \cup { F("repeat", w, 0, 0) : w \in {"onehot_var", "sos1_var", "sos1_bigm"} }
  \cup { F("hint_on_removed", "", 0, 0), F("none", "", 0, 0) }
HasHints(raw) == raw.hints # <<>>
Applicable(raw, f) ==
  CASE f.t = "dupvar" -> f.i # f.j /\ f.i \in DOMAIN raw.vars /\ f.j \in DOMAIN raw.vars
    [] f.t = "dupcon" /\ f.w = "aa" -> f.i # f.j /\ f.i \in DOMAIN raw.constraints /\ f.j \in DOMAIN raw.constraints
    [] f.t = "dupcon" /\ f.w = "ar" -> f.i \in DOMAIN raw.constraints /\ f.j \in DOMAIN raw.removed /\ raw.removed[f.j].c # <<>>
    [] f.t = "dupcon" /\ f.w = "rr" -> f.i # f.j /\ f.i \in DOMAIN raw.removed /\ f.j \in DOMAIN raw.removed /\ raw.removed[f.i].c # <<>> /\ raw.removed[f.j].c # <<>>
    [] f.t = "undef" /\ f.w \in {"depkey", "depfn"} -> raw.deps # <<>>
    [] f.t = "undef" /\ f.w \in {"onehot_cid", "onehot_var", "sos1_bin", "sos1_bigm", "sos1_var"} -> HasHints(raw)
    [] f.t = "undef" /\ f.w = "con" -> f.i \in DOMAIN raw.constraints
    [] f.t = "undef" /\ f.w = "rem" -> f.i \in DOMAIN raw.removed /\ raw.removed[f.i].c # <<>>
    [] f.t = "unset" /\ f.w = "dep_oneof" -> raw.deps # <<>>
    [] f.t = "unset" /\ f.w \in {"con_fn_missing", "con_fn_oneof", "con_eq"} -> f.i \in DOMAIN raw.constraints
    [] f.t = "unset" /\ f.w \in {"rem_fn_missing", "rem_fn_oneof", "rem_eq"} -> f.i \in DOMAIN raw.removed /\ raw.removed[f.i].c # <<>>
    [] f.t = "unset" /\ f.w = "rem_c_missing" -> f.i \in DOMAIN raw.removed
    [] f.t = "unset" /\ f.w = "var_kind" -> f.i \in DOMAIN raw.vars
    [] f.t = "bound" -> f.i \in DOMAIN raw.vars
    [] f.t = "repeat" -> HasHints(raw)
    [] f.t = "hint_on_removed" -> HasHints(raw) /\ raw.removed # <<>> /\ raw.removed[1].c # <<>>
    [] OTHER -> TRUE
SetConF(c, f) == [c EXCEPT !.f = f]
MapRemC(raw, i, G(_)) == [raw EXCEPT !.removed[i].c = << G(@[1]) >>]
Apply(raw, f) ==
  CASE f.t = "dupvar" -> [raw EXCEPT !.vars[f.j].id = raw.vars[f.i].id]
    [] f.t = "dupcon" /\ f.w = "aa" -> [raw EXCEPT !.constraints[f.j].id = raw.constraints[f.i].id]
    [] f.t = "dupcon" /\ f.w = "ar" -> MapRemC(raw, f.j, LAMBDA c : [c EXCEPT !.id = raw.constraints[f.i].id])
    [] f.t = "dupcon" /\ f.w = "rr" -> MapRemC(raw, f.j, LAMBDA c : [c EXCEPT !.id = raw.removed[f.i].c[1].id])
    [] f.t = "undef" /\ f.w = "objective" -> [raw EXCEPT !.objective = << UndefFns[f.j] >>]
    [] f.t = "undef" /\ f.w = "con" -> [raw EXCEPT !.constraints[f.i].f = << UndefFns[f.j] >>]
    [] f.t = "undef" /\ f.w = "rem" -> MapRemC(raw, f.i, LAMBDA c : SetConF(c, << UndefFns[f.j] >>))
    [] f.t = "undef" /\ f.w = "depkey" -> [raw EXCEPT !.deps[1] = << 98, @[2] >>]
    [] f.t = "undef" /\ f.w = "depfn" -> [raw EXCEPT !.deps[1] = << @[1], UndefFns[f.j] >>]
    [] f.t = "undef" /\ f.w = "onehot_cid" -> [raw EXCEPT !.hints[1].onehot[1].cid = 77]
    [] f.t = "undef" /\ f.w = "onehot_var" -> [raw EXCEPT !.hints[1].onehot[1].vars = Append(@, 99)]
    [] f.t = "undef" /\ f.w = "sos1_bin" -> [raw EXCEPT !.hints[1].sos1[1].bin = 77]
    [] f.t = "undef" /\ f.w = "sos1_bigm" -> [raw EXCEPT !.hints[1].sos1[1].bigm = Append(@, 78)]
    [] f.t = "undef" /\ f.w = "sos1_var" -> [raw EXCEPT !.hints[1].sos1[1].vars = Append(@, 99)]
    [] f.t = "unset" /\ f.w = "sense" -> [raw EXCEPT !.sense = "unspecified"]
    [] f.t = "unset" /\ f.w = "objective_missing" -> [raw EXCEPT !.objective = <<>>]
    [] f.t = "unset" /\ f.w = "objective_oneof" -> [raw EXCEPT !.objective = << NoFn >>]
    [] f.t = "unset" /\ f.w = "dep_oneof" -> [raw EXCEPT !.deps[1] = << @[1], NoFn >>]
    [] f.t = "unset" /\ f.w = "con_fn_missing" -> [raw EXCEPT !.constraints[f.i].f = <<>>]
    [] f.t = "unset" /\ f.w = "con_fn_oneof" -> [raw EXCEPT !.constraints[f.i].f = << NoFn >>]
    [] f.t = "unset" /\ f.w = "con_eq" -> [raw EXCEPT !.constraints[f.i].eq = "unspecified"]
    [] f.t = "unset" /\ f.w = "rem_c_missing" -> [raw EXCEPT !.removed[f.i].c = <<>>]
    [] f.t = "unset" /\ f.w = "rem_fn_missing" -> MapRemC(raw, f.i, LAMBDA c : SetConF(c, <<>>))
    [] f.t = "unset" /\ f.w = "rem_fn_oneof" -> MapRemC(raw, f.i, LAMBDA c : SetConF(c, << NoFn >>))
    [] f.t = "unset" /\ f.w = "rem_eq" -> MapRemC(raw, f.i, LAMBDA c : [c EXCEPT !.eq = "unspecified"])
    [] f.t = "unset" /\ f.w = "var_kind" -> [raw EXCEPT !.vars[f.i].kind = "unspecified"]
    [] f.t = "bound" -> [raw EXCEPT !.vars[f.i].bound =
          CASE f.w = "nan_lo" -> B(NaN, R(1)) [] f.w = "nan_hi" -> B(R(0), NaN) [] f.w = "lo_pinf" -> B(PInf, PInf)
            [] f.w = "hi_ninf" -> B(NInf, NInf) [] f.w = "lo_gt_hi" -> B(R(2), R(1)) [] f.w = "point" -> B(R(1), R(1))
            [] f.w = "zero" -> B(Zero, Zero) [] f.w = "negzero" -> B(R(-2), Zero)
            [] f.w = "absent" -> <<>> [] f.w = "free" -> B(NInf, PInf)]
    [] f.t = "repeat" /\ f.w = "onehot_var" -> [raw EXCEPT !.hints[1].onehot[1].vars = Append(@, @[1])]
    [] f.t = "repeat" /\ f.w = "sos1_var" -> [raw EXCEPT !.hints[1].sos1[1].vars = Append(@, @[1])]
    [] f.t = "repeat" /\ f.w = "sos1_bigm" -> [raw EXCEPT !.hints[1].sos1[1].bigm = Append(@, @[1])]
    [] f.t = "hint_on_removed" -> [raw EXCEPT !.hints[1].onehot[1].cid = raw.removed[1].c[1].id]
    [] OTHER -> raw
\* a removed-constraint entry WITHOUT a constraint body in front of the others: validate() skips it, and every rule still
\* applies to the entries behind it
Base3 == [Base1 EXCEPT !.removed = << [c |-> <<>>, reason |-> "blank", rparams |-> <<>>] >> \o @, !.hints = <<>>]
Bases == {Base1, Base2, Base3}
\* parametric variants: variable 2 (resp. 3) becomes a parameter; parameter faults
P(id) == [id |-> id, name |-> <<>>, subs |-> <<>>, params |-> <<>>, desc |-> <<>>]
PBase == [Base1 EXCEPT !.vars = SubSeq(@, 1, 1) \o SubSeq(@, 3, 5), !.parameters = << P(2), P(60) >>, !.hints = <<>>]
PFaults == { F("none", "", 0, 0), F("pdup", "var", 0, 0), F("pdup", "param", 0, 0), F("undef", "objective", 0, 1), F("undef", "objective", 0, 4),
             F("undef", "con", 1, 1), F("undef", "con", 1, 5), F("undef", "rem", 1, 1), F("dupcon", "aa", 1, 2), F("dupcon", "ar", 1, 1), F("dupcon", "rr", 1, 2), F("dupvar", "", 1, 2) }
PApply(raw, f) == CASE f.t = "pdup" /\ f.w = "var" -> [raw EXCEPT !.parameters[1].id = 1]
                    [] f.t = "pdup" /\ f.w = "param" -> [raw EXCEPT !.parameters[2].id = 2]
                    [] OTHER -> Apply(raw, f)
Init == vec = <<>> /\ phase = 0
Ev(name, raw) == [ev |-> name, in |-> [inst |-> raw]]
PEv(raw) == [ev |-> "pvalidate", in |-> [pinst |-> raw]]
Next == /\ phase = 0 /\ phase' = 1
        /\ \/ \E b \in Bases : \E f1 \in Faults(b) : Applicable(b, f1) /\
                LET r1 == Apply(b, f1) IN
                \/ \E name \in {"validate", "typed"} : vec' = Ev(name, r1)
                \/ Depth >= 2 /\ \E f2 \in Faults(r1) : Applicable(r1, f2) /\ f1.t # "none" /\ f2.t # "none" /\
                     \E name \in {"validate", "typed"} : vec' = Ev(name, Apply(r1, f2))
           \/ \E f1 \in PFaults, f2 \in PFaults : vec' = PEv(PApply(PApply(PBase, f1), f2))
Emit == phase = 1 => PrintT("VEC " \o ToJson(vec))
=============================================================================
