CONSTANTS MaxOps = 4 MaxNew = 2
INIT HInit
NEXT HNext
INVARIANT Emit
CHECK_DEADLOCK FALSE
