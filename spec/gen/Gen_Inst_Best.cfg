CONSTANTS MaxWidth = 600 HistLen = 3
INIT Init
NEXT DoBest
INVARIANT Emit
CHECK_DEADLOCK FALSE
