CONSTANTS MaxWidth = 600 HistLen = 3
INIT Init
NEXT DoPenalty
INVARIANT Emit
CHECK_DEADLOCK FALSE
