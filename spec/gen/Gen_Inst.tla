------------------------------- MODULE Gen_Inst -------------------------------
(* TLC as generator of instance-level behaviours (direction A): exhaustive small-scope families that the seeded
   drivers hit only by luck -- tolerance boundaries on the 2^-26 grid, every bound shape of irrelevant variables,
   every integer range in halves and every width for log-encoding, all relax/restore histories up to a length,
   all small sample sets in both field layouts, all small binary objectives, all small slack problems. *)
EXTENDS Inst, Json
CONSTANTS MaxWidth, HistLen
VARIABLES vec, phase
\* ---- raw message constructors ---------------------------------------------------------------------------
L(ts, c) == [kind |-> "linear", terms |-> ts, constant |-> c]
T(i, c) == [id |-> i, c |-> c]
Q(rs, cs, vs, lin) == [kind |-> "quadratic", rows |-> rs, columns |-> cs, values |-> vs, linear |-> lin]
P(ts) == [kind |-> "polynomial", terms |-> ts]
Mo(ids, c) == [ids |-> ids, c |-> c]
K(c) == [kind |-> "constant", c |-> c]
V(id, kind, bound) == [id |-> id, kind |-> kind, bound |-> bound, fixed |-> <<>>, name |-> <<>>, subs |-> <<>>, params |-> <<>>, desc |-> <<>>]
B(lo, hi) == << [lo |-> lo, hi |-> hi] >>
C(id, eq, f) == [id |-> id, eq |-> eq, f |-> <<f>>, name |-> <<"c">>, subs |-> <<id>>, params |-> <<>>, desc |-> <<>>]
Rm(c, reason) == [c |-> <<c>>, reason |-> reason, rparams |-> <<>>]
Inst(sense, vars, obj, cons, removed, deps) ==
  [sense |-> sense, vars |-> vars, objective |-> <<obj>>, constraints |-> cons, removed |-> removed, deps |-> deps,
   params |-> <<>>, hints |-> <<>>, description |-> <<>>, parameters |-> <<>>]
Ev(name, in) == [ev |-> name, in |-> in]
U26 == 67108864
G(k) == Mk(k, U26)                        \* k * 2^-26
\* ---- C05: tolerances ---------------------------------------------------------------------------------------
TolInst == Inst("min", << V(1, "continuous", <<>>), V(2, "continuous", B(Zero, One)), V(3, "integer", B(R(0), R(3))) >>,
                L(<< T(3, R(2)) >>, R(1)),
                << C(10, "eq", L(<< T(1, R(1)) >>, Zero)), C(11, "le", L(<< T(1, R(1)) >>, Zero)) >>,
                << Rm(C(12, "le", L(<< T(1, R(-1)) >>, Zero)), "r") >>, <<>>)
NextTol == \/ \E k \in {-2000, -68, -67, -1, 0, 1, 67, 68, 2000} :
                vec' = Ev("evaluate", [inst |-> TolInst, st |-> << <<1, G(k)>>, <<2, <<1,2>> >>, <<3, R(1)>> >>])
           \/ \E d \in {-8, -7, -6, -1, 0, 1, 6, 7, 8}, side \in {"lo", "hi"} :
                vec' = Ev("evaluate", [inst |-> TolInst, st |-> << <<1, Zero>>, <<2, IF side = "hi" THEN RAdd(One, G(d)) ELSE G(d)>>, <<3, R(1)>> >>])
           \/ \E y \in {R(-1), R(0), R(3), R(4), <<1,2>>} :
                vec' = Ev("evaluate", [inst |-> TolInst, st |-> << <<1, Zero>>, <<2, Zero>>, <<3, y>> >>])
\* ---- C05 / C06: values EXACTLY at the tolerances (tokens <<+-1,-6>> = +-1e-6, <<+-1,-7>> = +-1e-7, see Rat.tla) -------------
T6 == <<1, -6>>  NT6 == <<-1, -6>>  T7 == <<1, -7>>  NT7 == <<-1, -7>>
TokInst(lo3, hi3) == Inst("min", << V(1, "continuous", <<>>), V(2, "continuous", <<>>), V(3, "continuous", B(lo3, hi3)) >>,
                L(<< T(2, R(1)) >>, Zero),
                << C(10, "eq", L(<< T(1, T6) >>, Zero)), C(11, "le", L(<< T(1, T6) >>, Zero)) >>,
                << Rm(C(12, "le", L(<< T(1, NT6) >>, Zero)), "r"), Rm(C(13, "eq", P(<< Mo(<<1>>, NT6) >>)), "r") >>, <<>>)
NextTolExact == \/ \E x \in {R(1), R(-1), R(0)} : vec' = Ev("evaluate", [inst |-> TokInst(Zero, R(5)), st |-> << <<1, x>>, <<2, R(3)>>, <<3, R(1)>> >>])
                \/ \E x3 \in {NT7, T7, Zero} : \E side \in {"lo", "hi"} :
                      vec' = Ev("evaluate", [inst |-> IF side = "lo" THEN TokInst(Zero, PInf) ELSE TokInst(NInf, Zero), st |-> << <<1, R(0)>>, <<2, R(3)>>, <<3, x3>> >>])
                \/ \E grouped \in BOOLEAN :
                      vec' = Ev("evaluate_samples", [inst |-> TokInst(Zero, R(5)),
                          samples |-> IF grouped THEN << [state |-> << << <<1, R(1)>>, <<2, R(3)>>, <<3, R(1)>> >> >>, ids |-> <<0, 4>>],
                                                         [state |-> << << <<1, R(-1)>>, <<2, R(3)>>, <<3, R(1)>> >> >>, ids |-> <<2>>] >>
                                      ELSE << [state |-> << << <<1, R(1)>>, <<2, R(3)>>, <<3, R(1)>> >> >>, ids |-> <<0>>],
                                              [state |-> << << <<1, R(-1)>>, <<2, R(3)>>, <<3, R(1)>> >> >>, ids |-> <<2>>],
                                              [state |-> << << <<1, R(0)>>, <<2, R(3)>>, <<3, R(1)>> >> >>, ids |-> <<7>>] >>])
\* ---- C05: irrelevant variables of every kind and bound shape are reported nearest to zero -----------------------
BoundShapes == { <<>>, B(R(-2), R(3)), B(R(1), R(4)), B(R(-5), R(-2)), B(R(2), R(2)), B(NInf, R(-1)), B(R(1), PInf), B(NInf, PInf), B(Zero, PInf), B(<<1,2>>, <<3,2>>) }
NextIrrelevant == \E k \in {"continuous", "integer", "binary", "semi_continuous", "semi_integer"}, b \in BoundShapes, given \in BOOLEAN :
    (k = "binary" => b \in { <<>>, B(Zero, One), B(One, One) }) /\
    vec' = Ev("evaluate", [inst |-> Inst("max", << V(1, "integer", B(R(0), R(2))), V(5, k, b) >>, L(<< T(1, R(1)) >>, Zero),
                                         << C(3, "le", L(<< T(1, R(1)) >>, R(-1))) >>, <<>>, <<>>),
                           st |-> IF given /\ b # <<>> /\ IsFin(b[1].lo) THEN << <<1, R(1)>>, <<5, b[1].lo>> >> ELSE << <<1, R(1)>> >>])
\* ---- C05: a binary variable may carry an explicit tightened bound ([0,0], [1,1]); it is the bound that counts -------
NextBinaryBound == \E b \in { <<>>, B(Zero, One), B(Zero, Zero), B(One, One) }, x \in {R(0), R(1), R(2), R(-1)}, used \in BOOLEAN, k \in {"binary", "integer"} :
    vec' = Ev("evaluate", [inst |-> Inst("min", << V(1, k, b), V(2, "continuous", <<>>) >>, L(<< T(IF used THEN 1 ELSE 2, R(1)) >>, Zero), <<>>, <<>>, <<>>),
                           st |-> << <<1, x>>, <<2, R(1)>> >>])
\* ---- C05 / C03: fixed and dependent variables -------------------------------------------------------------------
DepInst(order) == Inst("min", << V(1, "continuous", <<>>), V(2, "continuous", <<>>), [V(3, "integer", B(R(0), R(5))) EXCEPT !.fixed = <<R(2)>>], V(4, "continuous", <<>>), V(6, "binary", <<>>) >>,
                 L(<< T(1, R(1)) >>, Zero), << C(1, "le", L(<< T(1, R(1)) >>, R(-3))) >>, <<>>,
                 IF order THEN << <<2, L(<< T(1, R(2)), T(3, R(1)) >>, Zero)>>, <<4, Q(<<2>>, <<2>>, <<R(1)>>, <<>>)>> >>
                 ELSE << <<4, Q(<<2>>, <<2>>, <<R(1)>>, <<>>)>>, <<2, L(<< T(1, R(2)), T(3, R(1)) >>, Zero)>> >>)
NextDeps == \E order \in BOOLEAN, x \in {R(0), R(1), <<1,2>>} : vec' = Ev("evaluate", [inst |-> DepInst(order), st |-> << <<1, x>> >>])
\* ---- C12 -----------------------------------------------------------------------------------------------------------
EncInst(kind, b) == Inst("min", << V(1, "continuous", <<>>), V(4, kind, b), V(9, "binary", <<>>) >>, L(<< T(4, R(1)) >>, Zero), <<>>, <<>>, <<>>)
\* the same variables stored out of id order (ids of new variables must still be fresh)
EncInstUnsorted(b) == Inst("min", << V(9, "binary", <<>>), V(12, "continuous", <<>>), V(4, "integer", b) >>, L(<< T(4, R(1)) >>, Zero), <<>>, <<>>, <<>>)
NextLogEncode ==
  \/ \E l2 \in -16..16, u2 \in -16..16 : l2 <= u2 /\ vec' = Ev("log_encode", [inst |-> EncInst("integer", B(Mk(l2, 2), Mk(u2, 2))), vid |-> 4])
  \* quarters and tenths: the fractional parts of the two ends vary independently (lower + upper slack may exceed 1)
  \/ \E l4 \in -9..9, u4 \in -9..40 : l4 <= u4 /\ (l4 % 2 # 0 \/ u4 % 2 # 0) /\ vec' = Ev("log_encode", [inst |-> EncInst("integer", B(Mk(l4, 4), Mk(u4, 4))), vid |-> 4])
  \/ \E l \in {Mk(1, 10), Mk(-19, 10), Mk(9, 10)}, n \in 0..17 : vec' = Ev("log_encode", [inst |-> EncInst("integer", B(l, RAdd(l, Mk(n * 10 + 8, 10)))), vid |-> 4])
  \/ \E w \in 1..MaxWidth, off \in {0, -1048576, 1048576} :
        vec' = Ev("log_encode", [inst |-> EncInst("integer", B(R(IF off = 1048576 THEN off - w ELSE off), R(IF off = 1048576 THEN off ELSE off + w))), vid |-> 4])
  \/ \E w \in {1, 2, 5, 7, 8, 100} : vec' = Ev("log_encode", [inst |-> EncInstUnsorted(B(R(0), R(w))), vid |-> 4])
  \* ends one grid step (2^-26, far inside the SDK's 1e-6 tolerances) off an integer, on either side: the range is
  \* ceil(l)..floor(u) exactly, so an end just outside an integer excludes it
  \/ \E k \in -2..2, m \in -2..4, dl \in {-1, 1}, dh \in {-1, 1} :
        /\ k * 67108864 + dl <= m * 67108864 + dh
        /\ vec' = Ev("log_encode", [inst |-> EncInst("integer", B(Mk(k * 67108864 + dl, 67108864), Mk(m * 67108864 + dh, 67108864))), vid |-> 4])
  \* the binaries are FRESH on every call: a second encoding of the same variable, and an instance that already holds a
  \* variable labelled like a log-encoding bit of it (as an earlier call leaves behind), get new ids all the same
  \/ \E w \in {1, 2, 5}, kind2 \in {"binary", "integer"} :
        LET lab == [V(7, kind2, B(Zero, One)) EXCEPT !.name = <<"ommx.log_encode">>, !.subs = <<4, 0>>]
            inst == [EncInst("integer", B(R(0), R(w))) EXCEPT !.vars = @ \o << lab >>] IN
        vec' = Ev("log_encode", [inst |-> inst, vid |-> 4])
  \/ \E w \in {1, 2, 5} : vec' = Ev("seq", [inst |-> EncInst("integer", B(R(0), R(w))),
                                          ops |-> << [op |-> "log_encode", vid |-> 4], [op |-> "log_encode", vid |-> 4] >>])
  \/ \E bad \in {"unknown", "continuous", "binary", "nobound", "inf_hi", "inf_lo", "inf_both", "empty", "semi_integer", "semi_continuous", "unspecified"} :
        vec' = Ev("log_encode", [inst |-> CASE bad = "continuous" -> EncInst("continuous", B(R(0), R(3)))
                                            [] bad \in {"semi_integer", "semi_continuous", "unspecified"} -> EncInst(bad, B(R(2), R(5)))
                                            [] bad = "binary" -> EncInst("binary", B(R(0), R(1)))
                                            [] bad = "nobound" -> EncInst("integer", <<>>)
                                            [] bad = "inf_hi" -> EncInst("integer", B(R(0), PInf))
                                            [] bad = "inf_lo" -> EncInst("integer", B(NInf, R(3)))
                                            [] bad = "inf_both" -> EncInst("integer", B(NInf, PInf))
                                            [] bad = "empty" -> EncInst("integer", B(<<1,4>>, <<3,4>>))
                                            [] OTHER -> EncInst("integer", B(R(0), R(3))),
                                 vid |-> IF bad = "unknown" THEN 77 ELSE 4])
\* ---- C14: all relax/restore histories up to HistLen on an instance with three constraints ---------------------
HInst == Inst("max", << V(1, "integer", B(R(0), R(2))), V(2, "binary", <<>>) >>, L(<< T(1, R(1)), T(2, R(1)) >>, Zero),
              << C(10, "le", L(<< T(1, R(1)), T(2, R(1)) >>, R(-2))), C(11, "eq", Q(<<1>>, <<2>>, <<R(1)>>, <<>>)) >>,
              << Rm(C(12, "le", L(<< T(1, R(1)) >>, R(-1))), "r0") >>, <<>>)
Ops == { [op |-> "relax", cid |-> c, reason |-> IF c = 11 THEN "" ELSE "why", rparams |-> <<>>] : c \in {10, 11, 12, 99} }
       \cup { [op |-> "restore", cid |-> c, reason |-> "", rparams |-> <<>>] : c \in {10, 11, 12, 99} }
EvalOp(x, y) == [op |-> "evaluate", cid |-> 0, reason |-> "", rparams |-> <<>>, st |-> << <<1, x>>, <<2, y>> >>]
WithSt(o) == [o EXCEPT !.cid = @] @@ [st |-> <<>>]
NextHistories == \E k \in 1..HistLen : \E s \in [1..k -> Ops] : \E x \in {R(0), R(2)}, y \in {R(0), R(1)} :
    vec' = Ev("seq", [inst |-> HInst, ops |-> [ i \in 1..k |-> WithSt(s[i]) ] \o << EvalOp(x, y) >>])
\* the same on the tolerance instance: a constraint whose value lies between the bound tolerance 1e-7 and the feasibility
\* tolerance 1e-6 (67u), just outside it (68u) or inside both (6u) must be judged alike whether it is active or removed
TolOps == { [op |-> "relax", cid |-> c, reason |-> "why", rparams |-> <<>>] : c \in {10, 11} }
          \cup { [op |-> "restore", cid |-> c, reason |-> "", rparams |-> <<>>] : c \in {12} }
TolEval(k) == [op |-> "evaluate", cid |-> 0, reason |-> "", rparams |-> <<>>, st |-> << <<1, G(k)>>, <<2, <<1,2>> >>, <<3, R(1)>> >>]
NextHistoriesTol == \E n \in 0..2 : \E s \in [1..n -> TolOps] : \E k \in {-68, -67, -6, 6, 67, 68} :
    vec' = Ev("seq", [inst |-> TolInst, ops |-> [ i \in 1..n |-> WithSt(s[i]) ] \o << TolEval(k) >>])
\* a state that omits a variable which only ONE constraint uses is rejected whether that constraint is active or removed
HInstP == Inst("min", << V(1, "integer", B(R(0), R(2))), V(2, "binary", <<>>), V(3, "integer", B(R(0), R(2))) >>, L(<< T(1, R(1)) >>, Zero),
               << C(10, "le", L(<< T(1, R(1)), T(3, R(1)) >>, R(-2))), C(11, "le", L(<< T(1, R(1)), T(2, R(1)) >>, R(-3))) >>, <<>>, <<>>)
NextHistoriesPartial == \E n \in 0..2 : \E s \in [1..n -> { [op |-> "relax", cid |-> 10, reason |-> "why", rparams |-> <<>>], [op |-> "restore", cid |-> 10, reason |-> "", rparams |-> <<>>],
                                                        [op |-> "relax", cid |-> 11, reason |-> "why", rparams |-> <<>>] }] :
    \E withX3 \in BOOLEAN :
    vec' = Ev("seq", [inst |-> HInstP, ops |-> [ i \in 1..n |-> WithSt(s[i]) ] \o
              << [op |-> "evaluate", cid |-> 0, reason |-> "", rparams |-> <<>>,
                  st |-> IF withX3 THEN << <<1, R(1)>>, <<2, R(1)>>, <<3, R(2)>> >> ELSE << <<1, R(1)>>, <<2, R(1)>> >>] >>])
\* ---- C06 ----------------------------------------------------------------------------------------------------------
SInst == Inst("min", << V(1, "integer", B(R(0), R(3))), V(2, "binary", <<>>), V(5, "continuous", B(R(-1), PInf)) >>, L(<< T(1, R(1)), T(2, R(-1)) >>, Zero),
              << C(10, "le", L(<< T(1, R(1)), T(2, R(1)) >>, R(-2))) >>, << Rm(C(12, "eq", L(<< T(1, R(1)) >>, R(-1))), "r0") >>, <<>>)
SInstFixed == [SInst EXCEPT !.vars = << V(1, "integer", B(R(0), R(3))), V(2, "binary", <<>>), [V(5, "continuous", B(R(-1), PInf)) EXCEPT !.fixed = <<R(2)>>] >>]
SStates == << << <<1, R(1)>>, <<2, R(1)>>, <<5, R(0)>> >>, << <<1, R(2)>>, <<2, R(1)>> >>, << <<1, R(0)>>, <<2, R(0)>>, <<5, R(-1)>> >> >>
\* samples: ids 0, 3, 8 ; assignment of a state to each id; same-state ids grouped in one entry or kept apart
NextSamples == \E n \in 1..3 : \E asg \in [1..n -> 1..3], grouped \in BOOLEAN :
    LET ids == <<0, 3, 8>>
        used == { asg[i] : i \in 1..n }
        entries == IF grouped THEN [ k \in 1..Cardinality(used) |-> LET s == SetToSeq(used)[k] IN
                                       [state |-> << SStates[s] >>, ids |-> SelectSeq(SubSeq(ids, 1, n), LAMBDA x : asg[CHOOSE i \in 1..n : ids[i] = x] = s)] ]
                   ELSE [ i \in 1..n |-> [state |-> << SStates[asg[i]] >>, ids |-> << ids[i] >>] ]
    IN \E I \in {SInst, SInstFixed} : vec' = Ev("evaluate_samples", [inst |-> I, samples |-> entries])
\* ---- growth: Samples::add_sample / transpose -------------------------------------------------------------------------------
NextSamplesHelpers == \E n \in 1..3 : \E asg \in [1..n -> 1..3] :
    vec' = Ev("samples_helpers", [adds |-> [ i \in 1..n |-> << <<4, 0, 9>>[i], SStates[asg[i]] >> ]])
\* ---- C15: all small sample sets in both layouts -------------------------------------------------------------------------
Pairs(f) == [ k \in DOMAIN SortSeq(SetToSeq(DOMAIN f), LAMBDA x, y : x < y) |-> LET s == SortSeq(SetToSeq(DOMAIN f), LAMBDA x, y : x < y)[k] IN <<s, f[s]>> ]
\* objective values: small, and large ones one unit apart (1e-7 relative): "no other sample beats it" is exact, not approximate
BestVals == { {R(0), R(1)}, {R(10000000), R(10000001)} }
NextBest == \E S \in (SUBSET {0, 3, 7}) \ {{}} : \E VS \in BestVals : \E objs \in [S -> VS], rel \in [S -> BOOLEAN], sense \in {"min", "max"}, legacy \in BOOLEAN, bytes \in BOOLEAN :
              \E all \in { a \in [S -> BOOLEAN] : \A s \in S : a[s] => rel[s] } :
    \E groupedSv \in BOOLEAN :
    LET single == [ k \in DOMAIN Pairs(objs) |-> [value |-> Pairs(objs)[k][2], ids |-> << Pairs(objs)[k][1] >>] ]
        vals == SortSeq(SetToSeq({ objs[s] : s \in S }), LAMBDA a, b : RLess(a, b))
        byValue == [ k \in DOMAIN vals |-> [value |-> vals[k], ids |-> SortSeq(SetToSeq({ s \in S : objs[s] = vals[k] }), LAMBDA a, b : a < b)] ]
        sv == IF groupedSv THEN byValue ELSE single IN
    vec' = Ev("best", [via_bytes |-> bytes,
              ss |-> [objectives |-> <<sv>>, vars |-> <<>>, constraints |-> <<>>, sense |-> sense,
                      feasible |-> IF legacy THEN Pairs(rel) ELSE Pairs(all),
                      feasible_relaxed |-> IF legacy THEN <<>> ELSE Pairs(rel),
                      feasible_unrelaxed |-> IF legacy THEN Pairs(all) ELSE <<>>]])
\* ---- C15: as_minimization_problem on objectives of every representation, both senses, twice (idempotence) -------------------
AsMinObjs == { K(R(3)), L(<< T(1, R(2)), T(2, R(-1)) >>, R(1)), L(<<>>, R(-2)),
               Q(<<>>, <<>>, <<>>, << L(<< T(1, R(1)) >>, <<1,2>>) >>), Q(<<1>>, <<2>>, <<R(2)>>, <<>>), Q(<<2, 1>>, <<1, 1>>, <<R(1), R(-1)>>, << L(<< T(2, R(3)) >>, Zero) >>),
               Q(<<1>>, <<1>>, <<Zero>>, << L(<< T(1, R(-1)) >>, R(2)) >>),
               P(<<>>), P(<< Mo(<<1, 1, 2>>, R(-1)), Mo(<<>>, R(4)) >>), P(<< Mo(<<2>>, R(1)) >>) }
NextAsMin == \E o \in AsMinObjs, sense \in {"min", "max"}, x \in {R(0), R(1), R(2)}, y \in {R(0), R(1)} :
    vec' = Ev("seq", [inst |-> Inst(sense, << V(1, "integer", B(R(0), R(2))), V(2, "binary", <<>>) >>, o, << C(5, "le", L(<< T(1, R(1)) >>, R(-1))) >>, <<>>, <<>>),
                      ops |-> << [op |-> "as_min", st |-> <<>>], [op |-> "evaluate", st |-> << <<1, x>>, <<2, y>> >>], [op |-> "as_min", st |-> <<>>] >>])
\* ---- C11: small binary objectives in every representation; refusal conditions ---------------------------------------------
Cs3 == {R(-1), R(2), <<1,2>>}
BinObjs == { K(R(3)), [kind |-> "none"] } \cup { L(<< T(i, c), T(j, d) >>, R(1)) : i \in {1, 2}, j \in {1, 2}, c \in Cs3, d \in {R(1), R(-2)} }
           \cup { Q(<<i>>, <<j>>, <<c>>, lin) : i \in {1, 2, 3}, j \in {1, 2, 3}, c \in Cs3, lin \in {<<>>, << L(<< T(1, R(-1)) >>, R(2)) >>} }
           \cup { P(<< Mo(m, c), Mo(m2, R(-2)) >>) : m \in { <<1, 1>>, <<2, 1, 1>>, <<1, 2, 3>>, <<3, 3, 3, 3>>, <<2, 1, 2, 1>>, <<>> }, m2 \in { <<1>>, <<1, 2>>, <<3, 2, 1>> }, c \in {R(2), R(1)} }
BinInst(obj, sense, cons, k3) == [Inst(sense, << V(1, "binary", <<>>), V(2, "binary", B(Zero, One)), V(3, k3, B(Zero, One)) >>, obj, cons, <<>>, <<>>)
                                 EXCEPT !.objective = IF obj.kind = "none" THEN <<>> ELSE <<obj>>]
NextQubo == \E o \in BinObjs, name \in {"pubo", "qubo"} :
              \/ vec' = Ev(name, [inst |-> BinInst(o, "min", <<>>, "binary")])
              \/ \E bad \in {"max", "cons", "integer", "continuous", "semi_integer", "semi_continuous", "unspecified"} :
                   vec' = Ev(name, [inst |-> BinInst(o, IF bad = "max" THEN "max" ELSE "min",
                                                     IF bad = "cons" THEN << C(1, "eq", K(Zero)) >> ELSE <<>>,
                                                     IF bad \in {"max", "cons"} THEN "binary" ELSE bad)])
\* ---- C13: all small slack problems -----------------------------------------------------------------------------------------
Coefs == {R(-2), R(-1), R(1), <<1,2>>, <<-1,3>>}
Bx == { B(R(-2), R(-1)), B(R(-1), R(1)), B(R(0), R(2)) }
SlackF == { L(<< T(1, a), T(2, b) >>, c) : a \in Coefs, b \in Coefs \cup {Zero}, c \in {R(-2), R(0), R(1), <<1,2>>} }
          \cup { Q(<<1>>, <<2>>, <<a>>, << L(<< T(1, b) >>, c) >>) : a \in {R(1), R(-1)}, b \in {R(1), R(-2)}, c \in {R(-1), R(0)} }
PtsOfBox(b1, b2) == LET xs == (b1[1].lo[1])..(b1[1].hi[1])  ys == (b2[1].lo[1])..(b2[1].hi[1])
                        ps == { << <<1, R(x)>>, <<2, R(y)>> >> : x \in xs, y \in ys } IN SetToSeq(ps)
NextSlack == \E f \in SlackF, b1 \in Bx, b2 \in Bx, conv \in BOOLEAN :
    LET inst == Inst("min", << V(1, "integer", b1), V(2, "integer", b2) >>, K(Zero), << C(7, "le", f) >>, <<>>, <<>>) IN
    IF conv THEN \E mx \in {2, 1000} : vec' = Ev("slack_convert", [inst |-> inst, cid |-> 7, max |-> mx, ub |-> 0, points |-> PtsOfBox(b1, b2)])
    ELSE \E ub \in {1, 3} : vec' = Ev("slack_add", [inst |-> inst, cid |-> 7, max |-> 0, ub |-> ub, points |-> PtsOfBox(b1, b2)])
\* decisions exactly on their thresholds with coefficients that are not binary fractions: the constant makes the exact
\* minimum (or maximum) of f over the box equal to 0, so "never holds" / "always holds" are decided at 0 itself while the
\* floating-point interval end is a rounding error away from it
Thirds == { <<1,3>>, <<-2,3>>, <<5,3>>, <<-7,6>>, <<11,6>>, R(-1), <<2,3>>, <<-5,3>> }
ExtremeLin(a, b, b1, b2, atMin) == RAdd(RMul(a, IF (RSign(a) > 0) = atMin THEN b1[1].lo ELSE b1[1].hi),
                                        RMul(b, IF (RSign(b) > 0) = atMin THEN b2[1].lo ELSE b2[1].hi))
NextSlackBoundary == \E a \in Thirds, b \in Thirds, b1 \in Bx, b2 \in Bx, atMin \in BOOLEAN, conv \in BOOLEAN :
    LET f == L(<< T(1, a), T(2, b) >>, RNeg(ExtremeLin(a, b, b1, b2, atMin)))
        inst == Inst("min", << V(1, "integer", b1), V(2, "integer", b2) >>, K(Zero), << C(7, "le", f) >>, <<>>, <<>>) IN
    IF conv THEN vec' = Ev("slack_convert", [inst |-> inst, cid |-> 7, max |-> 1000, ub |-> 0, points |-> PtsOfBox(b1, b2)])
    ELSE vec' = Ev("slack_add", [inst |-> inst, cid |-> 7, max |-> 0, ub |-> 3, points |-> PtsOfBox(b1, b2)])
NextSlackRejects == \E why \in {"unknown", "equality", "unspecified", "continuous", "nofn", "removed"}, conv \in BOOLEAN :
    LET base == Inst("min", << V(1, "integer", B(R(0), R(2))), V(2, IF why = "continuous" THEN "continuous" ELSE "integer", B(R(0), R(2))) >>, K(Zero),
                     << [C(7, IF why = "equality" THEN "eq" ELSE IF why = "unspecified" THEN "unspecified" ELSE "le", L(<< T(1, R(1)), T(2, R(1)) >>, R(-1))) EXCEPT !.f = IF why = "nofn" THEN <<>> ELSE @] >>,
                     << Rm(C(8, "le", L(<< T(1, R(1)) >>, R(-1))), "r") >>, <<>>)
        cid == IF why = "unknown" THEN 99 ELSE IF why = "removed" THEN 8 ELSE 7 IN
    vec' = Ev(IF conv THEN "slack_convert" ELSE "slack_add", [inst |-> base, cid |-> cid, max |-> 1000, ub |-> 2, points |-> PtsOfBox(B(R(0), R(2)), B(R(0), R(2)))])
\* ---- C09 / C10 --------------------------------------------------------------------------------------------------------------
\* (variable 3 is defined but used nowhere: fresh parameter ids must avoid it too)
PenInsts == { Inst(s, << V(1, "integer", B(R(0), R(2))), V(2, "binary", <<>>), V(3, "integer", <<>>), V(7, "continuous", <<>>) >>, L(<< T(1, R(1)) >>, R(1)), cons, rem, <<>>) :
              s \in {"min", "max"},
              cons \in { <<>>, << C(10, "le", L(<< T(1, R(1)), T(2, R(1)) >>, R(-2))) >>,
                         << C(3, "eq", Q(<<1>>, <<2>>, <<R(1)>>, <<>>)), [C(20, "le", K(R(2))) EXCEPT !.f = <<>>], C(5, "le", K(<<1,2>>)) >> },
              rem \in { <<>>, << Rm(C(12, "le", L(<< T(7, R(1)) >>, R(-1))), "r0") >>,
                         << Rm(C(12, "le", L(<< T(7, R(1)) >>, R(-1))), "penalty_method"), Rm(C(13, "eq", L(<< T(1, R(1)) >>, R(-1))), "uniform_penalty_method") >> } }
NextPenalty == \/ \E i \in PenInsts, name \in {"penalty", "uniform_penalty", "to_parametric"} : vec' = Ev(name, [inst |-> i])
               \* an instance that records the parameter values it was instantiated with converts back with NO declared parameters
               \/ \E i \in PenInsts, pv \in { << <<>> >>, << << <<50, R(2)>>, <<51, <<1,2>> >> >> >> } :
                     vec' = Ev("to_parametric", [inst |-> [i EXCEPT !.params = pv]])
PInstBase == [Inst("min", << V(1, "integer", B(R(0), R(2))), V(2, "binary", <<>>) >>,
                   P(<< Mo(<<1, 50, 50>>, R(2)), Mo(<<51>>, R(1)), Mo(<<1, 2>>, R(-1)) >>),
                   << C(10, "le", Q(<<50>>, <<1>>, <<R(1)>>, << L(<< T(2, R(1)) >>, R(-1)) >>)) >>,
                   << Rm(C(12, "le", L(<< T(1, R(1)), T(51, R(1)) >>, Zero)), "r0") >>, <<>>)
             EXCEPT !.parameters = << [id |-> 50, name |-> <<"p">>, subs |-> <<>>, params |-> <<>>, desc |-> <<>>], [id |-> 51, name |-> <<>>, subs |-> <<1>>, params |-> <<>>, desc |-> <<>>] >>]
NextWithParameters == \E a \in {R(0), R(2), <<-1,2>>}, b \in {R(1), R(-3)}, shape \in {"complete", "extra", "missing50", "missing51", "none"} :
    vec' = Ev("with_parameters", [pinst |-> PInstBase,
              pv |-> CASE shape = "complete" -> << <<50, a>>, <<51, b>> >> [] shape = "extra" -> << <<50, a>>, <<51, b>>, <<90, R(7)>> >>
                       [] shape = "missing50" -> << <<51, b>> >> [] shape = "missing51" -> << <<50, a>> >> [] OTHER -> <<>>])
\* ---- C18: every kind x bound shape of a used variable, either sense, constant-only constraints, non-contiguous ids ---------
RtBounds == { <<>>, B(Zero, One), B(Zero, Zero), B(R(-3), R(-1)), B(R(0), R(-0)), B(R(-2), R(5)), B(R(1), PInf), B(NInf, R(2)), B(NInf, R(-2)), B(NInf, Zero), B(NInf, PInf),
              B(Zero, PInf), B(R(2), R(2)), B(<<1,2>>, <<7,2>>),
              \* a big-M box: +-1e30 (tokens <<+-1,-30>>) are finite numbers, not the format's "infinity"
              B(Zero, <<1, -30>>), B(<<-1, -30>>, <<1, -30>>), B(<<-1, -30>>, R(7)) }
NextMpsRoundtrip ==
  \/ \E k \in {"continuous", "integer", "binary"}, b \in RtBounds, sense \in {"min", "max"}, k2 \in {"continuous", "integer"} :
       (k = "binary" => b \in { <<>>, B(Zero, One), B(Zero, Zero), B(One, One) }) /\
       \E k3 \in {"continuous", "integer"} :   \* variable 8 is used nowhere and sits between the two used ones
       vec' = Ev("mps_roundtrip", [inst |-> Inst(sense, << V(14, k, b), V(8, k3, <<>>), V(3, k2, IF k3 = "integer" THEN <<>> ELSE B(R(-1), R(4))) >>,
                                                 L(<< T(14, R(2)), T(3, <<-1,2>>) >>, R(3)),
                                                 << C(21, "le", L(<< T(14, R(1)), T(3, R(1)) >>, R(-4))), C(4, "eq", K(R(0))), C(10, "le", K(R(-1))) >>, <<>>, <<>>)])
  \* tiny magnitudes whose shortest decimal form needs 17 significant digits (1/2^26 = 1.4901161193847656e-8), in every
  \* numeric field the writer prints: objective / constraint coefficients, both RHS constants, both bounds
  \/ \E t \in { <<1, 67108864>>, <<-1, 67108864>>, <<7, 67108864>>, <<-9, 33554432>>, <<11, 16777216>> }, where \in {"objcoef", "concoef", "objconst", "conconst", "lower", "upper"} :
       vec' = Ev("mps_roundtrip", [inst |-> Inst("min", << V(1, "continuous", IF where = "lower" THEN B(t, R(3)) ELSE IF where = "upper" THEN B(R(-3), t) ELSE <<>>), V(2, "integer", B(R(0), R(3))) >>,
                                                 L(<< T(1, IF where = "objcoef" THEN t ELSE R(1)), T(2, R(2)) >>, IF where = "objconst" THEN t ELSE Zero),
                                                 << C(5, "le", L(<< T(2, IF where = "concoef" THEN t ELSE R(1)), T(1, R(1)) >>, IF where = "conconst" THEN t ELSE R(-1))) >>, <<>>, <<>>)])
  \/ \E bad \in {"objective", "constraint", "both"} :
       vec' = Ev("mps_roundtrip", [inst |-> Inst("min", << V(1, "continuous", <<>>), V(2, "integer", B(R(0), R(3))) >>,
                                                 IF bad \in {"objective", "both"} THEN Q(<<1>>, <<2>>, <<R(1)>>, <<>>) ELSE L(<< T(1, R(1)) >>, Zero),
                                                 << C(5, "le", L(<< T(2, R(1)) >>, R(-1))),
                                                    C(17, "eq", IF bad \in {"constraint", "both"} THEN P(<< Mo(<<1, 1, 2>>, R(2)) >>) ELSE L(<< T(1, R(1)) >>, Zero)) >>, <<>>, <<>>)])
Step(A) == phase = 0 /\ phase' = 1 /\ A
Init == vec = <<>> /\ phase = 0
DoEvaluate == Step(NextTol \/ NextTolExact \/ NextIrrelevant \/ NextBinaryBound \/ NextDeps)
DoLogEncode == Step(NextLogEncode)
DoHistories == Step(NextHistories \/ NextHistoriesTol \/ NextHistoriesPartial)
DoSamples == Step(NextSamples \/ NextTolExact \/ NextSamplesHelpers)
DoBest == Step(NextBest \/ NextAsMin)
DoQubo == Step(NextQubo)
DoSlack == Step(NextSlack \/ NextSlackBoundary \/ NextSlackRejects)
DoMpsRoundtrip == Step(NextMpsRoundtrip)
DoPenalty == Step(NextPenalty \/ NextWithParameters)
Emit == phase = 1 => PrintT("VEC " \o ToJson(vec))
=============================================================================
