------------------------------- MODULE Gen_Store -------------------------------
(* Direction A for the artifact store: every history of MC_Store's alphabet up to MaxOps operations, printed as one
   `store` vector; the harness performs it on a fresh store (scratch data directory and scratch files) and records the
   observed store before and after every operation. *)
EXTENDS ArtifactStore, Json
CONSTANTS MaxOps, Dir, Rich
VARIABLES S, hist, last
Names == {"ghcr.io/o/r/x:v1", "localhost:5000/t/y:tag1"}
Paths == {"a1", "a2"}
Contents == IF Rich THEN { <<>>, << <<"solution", 1>> >>, << <<"instance", 2>>, <<"solution", 1>> >> }
            ELSE { << <<"solution", 1>> >>, << <<"instance", 2>>, <<"solution", 1>> >> }
Ops == { [op |-> "build_archive", path |-> p, name |-> nm, layers |-> c] : p \in Paths, nm \in { <<>> } \cup { <<x>> : x \in Names }, c \in Contents }
       \cup { [op |-> "build_dir", name |-> x, layers |-> c] : x \in Names, c \in Contents }
       \cup { [op |-> "load", path |-> p] : p \in Paths }
       \cup { [op |-> "save", name |-> x, out |-> p] : x \in Names, p \in Paths }
Init == S = EmptyStore /\ hist = <<>> /\ last = TRUE
\* histories are pruned to the informative ones: an operation that fails (or succeeds without changing the store) ends
\* its history, since the store it leaves is the one before it
Live == hist = <<>> \/ last
Next == /\ Len(hist) < MaxOps /\ Live
        /\ \E op \in Ops : LET r == StoreStep(S, op) IN S' = r.S /\ hist' = Append(hist, op) /\ last' = (r.ok /\ r.S # S)
Emit == (hist # <<>> /\ (Len(hist) = MaxOps \/ ~last)) => PrintT("VEC " \o ToJson([ev |-> "store", in |-> [dir |-> Dir, ops |-> hist]]))
=============================================================================
