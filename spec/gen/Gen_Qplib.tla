------------------------------- MODULE Gen_Qplib -------------------------------
(* QPLIB files rendered by QplibText!QRender for every problem-type code, with a minimal and a dense model,
   each fault with its expected line number, and random models drawn by the seeded driver. *)
EXTENDS QplibText, TLC, Json, IOUtils
VARIABLES vec, phase
Lay == [comments : BOOLEAN, trailing : BOOLEAN]
Inf == R(1000)
Minimal(o, v, c) == [name |-> "MIN", o |-> o, v |-> v, c |-> c, sense |-> "minimize", n |-> 1, m |-> IF c \in {"N", "B"} THEN 0 ELSE 1,
  q0 |-> <<>>, b0def |-> Zero, b0 |-> <<>>, q0const |-> Zero, qi |-> <<>>, bi |-> <<>>, inf |-> Inf,
  cldef |-> RNeg(Inf), cl |-> <<>>, cudef |-> Inf, cu |-> <<>>, ldef |-> Zero, l |-> <<>>, udef |-> One, u |-> <<>>,
  tdef |-> 0, t |-> <<>>, vnames |-> <<>>, cnames |-> <<>>]
Dense(o, v, c, sense) == [name |-> "DENSE", o |-> o, v |-> v, c |-> c, sense |-> sense, n |-> 3, m |-> IF c \in {"N", "B"} THEN 0 ELSE 2,
  q0 |-> << <<1, 1, R(4)>>, <<2, 1, R(3)>>, <<3, 3, R(-2)>>, <<3, 2, <<1,2>> >> >>,
  b0def |-> R(2), b0 |-> << <<2, R(5)>>, <<3, Zero>> >>, q0const |-> R(7),
  qi |-> << <<1, 1, 1, R(2)>>, <<1, 2, 1, R(-1)>>, <<2, 3, 3, R(6)>> >>,
  bi |-> << <<1, 1, R(1)>>, <<1, 3, R(-2)>>, <<2, 2, <<3,2>> >> >>, inf |-> Inf,
  cldef |-> R(-1), cl |-> << <<2, RNeg(Inf)>> >>, cudef |-> Inf, cu |-> << <<1, R(4)>>, <<2, R(2000)>> >>,
  ldef |-> R(-2), l |-> << <<1, RNeg(Inf)>>, <<3, Zero>> >>, udef |-> R(3), u |-> << <<2, Inf>>, <<3, One>> >>,
  tdef |-> 1, t |-> << <<1, 0>>, <<2, 2>> >>, vnames |-> << <<1, "alpha">>, <<3, "gamma">> >>, cnames |-> << <<1, "first">> >>]
\* both-sided / equality / one-sided constraint rows
Sides(c) == [Dense("Q", "G", c, "maximize") EXCEPT !.cldef = R(1), !.cl = << <<1, R(2)>> >>, !.cudef = R(1), !.cu = << <<1, R(2)>> >>]
Ev(q, lay, fault) == [ev |-> "qplib_load", in |-> [model |-> q, layout |-> lay, fault |-> fault,
                       lines |-> IF fault = "none" THEN QRender(q, lay) ELSE QRenderFault(q, lay, fault)[1]]]
Os == {"L", "D", "C", "Q"}  Vs == {"C", "B", "M", "I", "G"}  Cs == {"N", "B", "L", "D", "C", "Q"}
NextCodes == \E o \in Os, v \in Vs, c \in Cs, lay \in Lay :
               \/ vec' = Ev(Minimal(o, v, c), lay, "none")
               \/ \E s \in {"minimize", "maximize"} : vec' = Ev(Dense(o, v, c, s), lay, "none")
\* a type code WITH general constraints whose declared count is 0: every section the code calls for is still in the file
NoCons(q) == [q EXCEPT !.m = 0, !.qi = <<>>, !.bi = <<>>, !.cl = <<>>, !.cu = <<>>, !.cnames = <<>>]
NextNoCons == \E o \in Os, v \in Vs, c \in {"L", "D", "C", "Q"}, lay \in Lay :
                \/ vec' = Ev(NoCons(Minimal(o, v, c)), lay, "none")
                \/ \E s \in {"minimize", "maximize"} : vec' = Ev(NoCons(Dense(o, v, c, s)), lay, "none")
\* the sparse sections list <<constraint, ...>> entries in ANY order: one constraint's entries interleaved with another's
Interleaved(q) == [q EXCEPT !.qi = << @[1], @[3], @[2] >>, !.bi = << @[1], @[3], @[2] >>]
NextInterleaved == \E o \in Os, v \in {"C", "M"}, c \in {"L", "D", "C", "Q"}, lay \in Lay, s \in {"minimize", "maximize"} :
                     vec' = Ev(Interleaved(Dense(o, v, c, s)), lay, "none")
NextSides == \E c \in {"L", "Q"}, lay \in Lay : vec' = Ev(Sides(c), lay, "none")
NextFaults == \/ \E f \in {"bad_type", "bad_sense", "bad_count", "eof", "bad_b0_first"}, lay \in Lay, c \in {"N", "L", "Q"} : vec' = Ev(Dense("Q", "M", c, "minimize"), lay, f)
              \/ \E lay \in Lay, o \in {"L", "Q"}, c \in {"L", "Q"} : vec' = Ev(Dense(o, "M", c, "minimize"), lay, "bad_bi_first")
Models == IF "MODELS" \in DOMAIN IOEnv THEN ndJsonDeserialize(IOEnv.MODELS) ELSE <<>>
NextRandom == \E k \in DOMAIN Models : vec' = Ev(Models[k].model, Models[k].layout, "none")
Step(A) == phase = 0 /\ phase' = 1 /\ A
Init == vec = <<>> /\ phase = 0
Next == Step(NextCodes \/ NextNoCons \/ NextInterleaved \/ NextSides \/ NextFaults)
NextR == Step(NextRandom)
Emit == phase = 1 => PrintT("VEC " \o ToJson(vec))
=============================================================================
