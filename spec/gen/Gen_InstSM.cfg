CONSTANTS MaxOps = 3 MaxNew = 1
INIT HInit
NEXT HNext
INVARIANT Emit
CHECK_DEADLOCK FALSE
