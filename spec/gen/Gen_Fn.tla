------------------------------- MODULE Gen_Fn -------------------------------
(* TLC as generator of function-level behaviours (direction A): exhaustive small-scope families of
   wire-legal messages in every representation.  One JSON vector per reachable state is printed. *)
EXTENDS Msg, Interval, ArithDefined, TLC, Json
CONSTANTS MaxLin, MaxQuad, MaxQuadLin, MaxMono, MaxMonoLen
VARIABLES vec, phase
IdsU == {1, 2}
Cs == {R(-1), R(0), R(2), <<1,2>>}
Cs3 == {R(-1), R(0), R(2)}
SeqsUpTo(S, n) == UNION { [1..k -> S] : k \in 0..n }
LinT == [id : IdsU, c : Cs]
Lins(n) == [kind : {"linear"}, terms : SeqsUpTo(LinT, n), constant : {R(0), R(2)}]
Quads(n, nl) == { [kind |-> "quadratic", rows |-> r, columns |-> c, values |-> v, linear |-> l] :
            r \in SeqsUpTo(IdsU, n), c \in SeqsUpTo(IdsU, n), v \in SeqsUpTo(Cs3, n),
            l \in {<<>>} \cup { <<x>> : x \in Lins(nl) } }
WQuads(n, nl) == { q \in Quads(n, nl) : WellShaped(q) }
MonoT(len) == [ids : SeqsUpTo(IdsU, len), c : Cs3]
Polys(n, len) == [kind : {"polynomial"}, terms : SeqsUpTo(MonoT(len), n)]
Consts == [kind : {"constant"}, c : Cs]
Msgs == { [kind |-> "none"] } \cup Consts \cup Lins(MaxLin) \cup WQuads(MaxQuad, MaxQuadLin) \cup Polys(MaxMono, MaxMonoLen)
\* a smaller pool for products of message sets
SmallMsgs == { [kind |-> "none"] } \cup [kind : {"constant"}, c : {R(2)}] \cup Lins(1) \cup WQuads(1, 0) \cup Polys(1, 2)
SetMsgs == SmallMsgs \ { [kind |-> "none"] }
\* states as sequences of <<id, value>>
StComplete == { << <<1, a>>, <<2, b>> >> : a \in {R(-1), <<3,2>>, R(0)}, b \in {R(0), R(2)} }
StMissing == { << <<1, R(2)>> >>, << <<2, <<1,2>> >> >>, <<>> }
NextEval == \E f \in Msgs, st \in StComplete \cup StMissing, via \in {"function", "typed"} :
              vec' = [ev |-> "eval_fn", in |-> [f |-> f, st |-> st, via |-> via]]
StPartial == { << <<1, a>> >> : a \in {R(0), R(2), <<-1,2>>} } \cup { << <<2, R(-1)>> >>, << <<2, R(0)>> >> }
             \cup { << <<1, R(2)>>, <<2, <<1,2>> >> >>, << <<3, R(1)>> >>, <<>> }
NextPartial == \E f \in Msgs, st \in StPartial, via \in {"function", "typed"} :
                 vec' = [ev |-> "partial_fn", in |-> [f |-> f, st |-> st, via |-> via]]
\* replacement maps: x1 := x2*x1 + 1 (mentions itself), x2 := 2, x1 := x3 - x2, simultaneous pairs (swap)
L(ts, c) == [kind |-> "linear", terms |-> ts, constant |-> c]
T(i, c) == [id |-> i, c |-> c]
ReplFns == { [kind |-> "constant", c |-> R(2)], L(<< T(2, R(1)) >>, R(0)), L(<< T(1, R(1)) >>, R(0)),
             L(<< T(3, R(1)), T(2, R(-1)) >>, R(0)), L(<< T(1, <<1,2>>) >>, R(1)),
             [kind |-> "quadratic", rows |-> <<2>>, columns |-> <<1>>, values |-> <<R(1)>>, linear |-> << L(<<>>, R(1)) >>],
             [kind |-> "polynomial", terms |-> << [ids |-> <<3, 3>>, c |-> R(2)] >>] }
Repls == { << <<1, r>> >> : r \in ReplFns } \cup { << <<2, r>> >> : r \in ReplFns }
         \cup { << <<1, r1>>, <<2, r2>> >> : r1 \in ReplFns, r2 \in ReplFns } \cup { <<>> }
NextSubst == \E f \in Msgs, r \in Repls : vec' = [ev |-> "subst_fn", in |-> [f |-> f, repl |-> r]]
\* ---- arithmetic operands per kind (un-normalised variants; quadratic without duplicated positions) ----
\* both triangles of one id pair in one message (no duplicated position): x1*x2 listed as (1,2) and (2,1)
SymQuads == { [kind |-> "quadratic", rows |-> <<1, 2>>, columns |-> <<2, 1>>, values |-> <<R(1), R(2)>>, linear |-> <<>>],
              [kind |-> "quadratic", rows |-> <<2, 1, 1>>, columns |-> <<1, 2, 1>>, values |-> <<R(-1), <<1,2>>, R(2)>>, linear |-> << L(<< T(1, R(-1)) >>, <<1,2>>) >>] }
QuadNoDup(q) == \A i, j \in DOMAIN q.rows : i # j => <<q.rows[i], q.columns[i]>> # <<q.rows[j], q.columns[j]>>
Operand(k) ==
  CASE k = "num"   -> { [k |-> "num", c |-> c, id |-> 0, f |-> [kind |-> "none"]] : c \in {R(0), R(2), <<-1,2>>} }
    [] k = "dv"    -> { [k |-> "dv", c |-> Zero, id |-> i, f |-> [kind |-> "none"], vk |-> vk] : i \in IdsU, vk \in {"binary", "integer", "continuous"} }
    [] k = "param" -> { [k |-> "param", c |-> Zero, id |-> i, f |-> [kind |-> "none"]] : i \in {2, 7} }
    [] k = "lin"   -> { [k |-> "lin", c |-> Zero, id |-> 0, f |-> f] : f \in Lins(2) }
    [] k = "quad"  -> { [k |-> "quad", c |-> Zero, id |-> 0, f |-> f] : f \in { q \in WQuads(2, 1) : QuadNoDup(q) } }
    [] k = "poly"  -> { [k |-> "poly", c |-> Zero, id |-> 0, f |-> f] : f \in Polys(2, 2) }
    [] k = "func"  -> { [k |-> "func", c |-> Zero, id |-> 0, f |-> f] : f \in SetMsgs \cup SymQuads }
\* a thinner operand family for the full kind x kind product
ThinLinParts == { <<>>, << L(<< T(1, R(2)) >>, R(-1)) >>, << L(<<>>, R(0)) >> }
Thin(k) == IF k \in {"lin", "poly"} THEN { o \in Operand(k) : Len(o.f.terms) <= 1 }
           ELSE IF k = "quad" THEN { o \in Operand(k) : Len(o.f.values) <= 1 /\ o.f.linear \in ThinLinParts }
                                   \cup { [k |-> "quad", c |-> Zero, id |-> 0, f |-> q] : q \in SymQuads }
           ELSE IF k = "func" THEN { o \in Operand(k) : o.f.kind = "quadratic" => QuadNoDup(o.f) }
           ELSE Operand(k)
DummyB == [k |-> "num", c |-> Zero, id |-> 0, f |-> [kind |-> "none"]]
NextArith == \/ \E cmb \in DefinedCombos : \E a \in Thin(cmb[2]), b \in Thin(cmb[3]) :
                   vec' = [ev |-> "arith", in |-> [op |-> cmb[1], a |-> a, b |-> b]]
             \/ \E k \in {"num", "dv", "param", "lin", "quad", "poly", "func"} : \E a \in Operand(k) :
                   vec' = [ev |-> "arith", in |-> [op |-> "neg", a |-> a, b |-> DummyB]]
\* same-kind and scalar products on the richer operand families
NextArithDeep == \/ \E cmb \in { c \in DefinedCombos : c[2] = c[3] \/ c[2] = "num" \/ c[3] = "num" \/ c[2] = "func" } :
                   \E a \in Operand(cmb[2]), b \in Thin(cmb[3]) :
                     vec' = [ev |-> "arith", in |-> [op |-> cmb[1], a |-> a, b |-> b]]
                 \* an operand combined with ITSELF (squares, x + x, x - x) on the rich families, un-normalised forms included
                 \/ \E cmb \in { c \in DefinedCombos : c[2] = c[3] } : \E a \in Operand(cmb[2]) :
                     vec' = [ev |-> "arith", in |-> [op |-> cmb[1], a |-> a, b |-> a]]
NextFnInfo == \E f \in Msgs : vec' = [ev |-> "fn_info", in |-> [f |-> f]]
\* ---- growth: Display, constructors ---------------------------------------------------------------------
FmtCs == {R(-1), R(1), R(2), R(-3), <<1,2>>, <<-5,4>>, <<3,8>>, R(0)}
NoRepeat(f) == LET ts == RawTerms(f) IN \A i, j \in DOMAIN ts : i # j => Sort(ts[i].ids) # Sort(ts[j].ids)
FmtFns == { [kind |-> "constant", c |-> c] : c \in FmtCs \ {Zero} } \cup { [kind |-> "none"] }
          \cup { L(<< T(1, a), T(2, b) >>, c) : a \in FmtCs, b \in FmtCs, c \in {R(0), R(3), <<-1,2>>} }
          \cup { [kind |-> "quadratic", rows |-> <<2, 1>>, columns |-> <<1, 1>>, values |-> <<a, b>>, linear |-> l] :
                 a \in FmtCs, b \in {R(1), R(-1), R(0)}, l \in {<<>>, << L(<< T(3, R(-1)) >>, <<1,2>>) >>} }
          \cup { [kind |-> "polynomial", terms |-> << [ids |-> <<2, 1, 1>>, c |-> a], [ids |-> <<3>>, c |-> b], [ids |-> <<1, 3>>, c |-> R(2)], [ids |-> <<>>, c |-> R(-1)] >>] :
                 a \in FmtCs, b \in {R(1), R(-2)} }
NextFmt == \E f \in FmtFns, via \in {"function", "typed"} : vec' = [ev |-> "fmt", in |-> [f |-> f, via |-> via]]
NextCtor == \/ \E ts \in SeqsUpTo({ <<i, c>> : i \in {1, 2, 5}, c \in {R(1), R(-1), <<1,2>>, R(0)} }, 3), c \in {R(0), R(2)} :
                 vec' = [ev |-> "ctor", in |-> [kind |-> "linear_new", terms |-> ts, constant |-> c, entries |-> <<>>]]
            \/ \E es \in SeqsUpTo({ <<i, j, c>> : i \in {1, 2}, j \in {1, 2}, c \in {R(1), R(-1), <<1,2>>} }, 3) :
                 vec' = [ev |-> "ctor", in |-> [kind |-> "quadratic_from_iter", terms |-> <<>>, constant |-> Zero, entries |-> es]]
            \/ \E ts \in SeqsUpTo({ <<m, c>> : m \in { <<>>, <<1>>, <<2, 1>>, <<1, 2>>, <<2, 1, 2>> }, c \in {R(1), R(-1), <<1,2>>} }, 3) :
                 vec' = [ev |-> "ctor", in |-> [kind |-> "polynomial_from_iter", terms |-> ts, constant |-> Zero, entries |-> <<>>]]
\* ---- intervals ------------------------------------------------------------------------------
E == {NInf, R(-3), R(-1), <<-1,2>>, Zero, <<1,2>>, One, R(2), PInf}
Ivs == { b \in [lo : E, hi : E] : Valid(b) }
BOp(op, a, b, n, k) == [ev |-> "bound_op", in |-> [op |-> op, a |-> a, b |-> b, n |-> n, k |-> k, x |-> Zero, atol |-> Zero]]
NextBound == \/ \E op \in {"add", "mul", "intersection"}, a \in Ivs, b \in Ivs : vec' = BOp(op, a, b, 0, One)
             \/ \E a \in Ivs, n \in 0..6 : vec' = BOp("pow", a, a, n, One)
             \/ \E a \in Ivs, k \in {R(-2), <<-1,2>>, <<1,2>>, R(3)} : vec' = BOp("scale", a, a, 0, k)
             \/ \E a \in Ivs, k \in {R(-2), Zero, <<1,2>>} : vec' = BOp("shift", a, a, 0, k)
             \/ \E a \in { b \in Ivs : HasInteger(b) } : vec' = BOp("int_round", a, a, 0, One)
             \* endpoints far beyond the 64-bit integers (+-1e30, tokens <<+-1,-30>>): the rounding must not clip them
             \/ \E a \in { [lo |-> Zero, hi |-> <<1, -30>>], [lo |-> <<-1, -30>>, hi |-> <<7, 2>>], [lo |-> <<-1, -30>>, hi |-> <<1, -30>>],
                            [lo |-> <<1, -30>>, hi |-> PInf], [lo |-> NInf, hi |-> <<-1, -30>>], [lo |-> <<1, -30>>, hi |-> <<1, -30>>] } :
                   vec' = BOp("int_round", a, a, 0, One)
             \/ \E a \in Ivs : vec' = BOp("nearest", a, a, 0, One)
             \/ \E a \in [lo : E \cup {NaN}, hi : E \cup {NaN}] : vec' = BOp("new", a, a, 0, One)
U26 == 67108864
NextContains == \E a \in { b \in Ivs : b.lo \in {NInf, Zero, One} /\ b.hi \in {One, R(2), PInf} },
                    x \in { RAdd(base, Mk(d, U26)) : base \in {Zero, One, R(2)}, d \in {-8, -7, -6, -1, 0, 1, 6, 7, 8} } :
                  vec' = [ev |-> "bound_op", in |-> [op |-> "contains", a |-> a, b |-> a, n |-> 0, k |-> One, x |-> x, atol |-> <<1, 10000000>>]]
Boxes == { << <<1, a>>, <<2, b>> >> : a \in Ivs, b \in { x \in Ivs : x.lo \in {NInf, R(-1), Zero} /\ x.hi \in {Zero, R(2), PInf} } }
         \cup { << <<1, a>> >> : a \in Ivs }
BoundFns == Consts \cup Lins(1) \cup WQuads(1, MaxQuadLin) \cup Polys(MaxMono, MaxMonoLen)
NextEvalBound == \E f \in BoundFns, bx \in Boxes : vec' = [ev |-> "eval_bound", in |-> [f |-> f, box |-> bx]]
Fracs == { <<p, q>> : p \in {1, 2, 3, 5, -1, -3}, q \in {1, 2, 3, 4, 6, 12} }
NFracs == { Mk(x[1], x[2]) : x \in Fracs }
NextContent == \/ \E a \in NFracs, b \in NFracs, c \in {Zero, <<1,3>>, <<5,12>>} :
                     vec' = [ev |-> "content_factor", in |-> [f |-> L(<< T(1, a), T(2, b) >>, c)]]
               \/ \E f \in Msgs : vec' = [ev |-> "content_factor", in |-> [f |-> f]]
Init == vec = <<>> /\ phase = 0
Step(A) == phase = 0 /\ phase' = 1 /\ A
DoFmt == Step(NextFmt)
DoCtor == Step(NextCtor)
DoEval == Step(NextEval)
DoPartial == Step(NextPartial)
DoSubst == Step(NextSubst)
DoArith == Step(NextArith)
DoArithDeep == Step(NextArithDeep)
DoFnInfo == Step(NextFnInfo)
DoBound == Step(NextBound)
DoContains == Step(NextContains)
DoEvalBound == Step(NextEvalBound)
DoContent == Step(NextContent)
Emit == phase = 1 => PrintT("VEC " \o ToJson(vec))
=============================================================================
