CONSTANTS MaxLin = 1 MaxQuad = 1 MaxQuadLin = 1 MaxMono = 1 MaxMonoLen = 3
INIT Init
NEXT DoSubst
INVARIANT Emit
CHECK_DEADLOCK FALSE
