------------------------------- MODULE Gen_WireReenc -------------------------------
(* Second direction of C07's dynamic check: bytes WRITTEN BY THE SDK (recorded wire_encode events, file named by
   the environment variable REENC) are decoded under the published schema and re-encoded canonically by the
   specification's own encoder (fields in number order, repeated scalars unpacked); the harness then decodes
   both byte strings with prost and reports whether the messages are equal. *)
EXTENDS Wire, Json, IOUtils
VARIABLES vec, phase
S == JsonDeserialize(IOEnv.SCHEMA).messages
Recs == ndJsonDeserialize(IOEnv.REENC)
Init == vec = <<>> /\ phase = 0
Next == /\ phase = 0 /\ phase' = 1
        /\ \E k \in DOMAIN Recs :
             vec' = [ev |-> "wire_redecode", in |-> [type |-> Recs[k].wtype, a |-> Recs[k].bytes,
                                                      b |-> EncodeTree(S, Recs[k].wtype, Decode(S, Recs[k].wtype, Recs[k].bytes))]]
Emit == phase = 1 => PrintT("VEC " \o ToJson(vec))
=============================================================================
