CONSTANTS MaxLin = 1 MaxQuad = 1 MaxQuadLin = 0 MaxMono = 1 MaxMonoLen = 3
INIT Init
NEXT DoEvalBound
INVARIANT Emit
CHECK_DEADLOCK FALSE
