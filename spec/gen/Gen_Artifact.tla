------------------------------- MODULE Gen_Artifact -------------------------------
(* Every sequence of add_* operations up to a length over the four layer kinds, with payloads and annotation
   maps from pools (identical bytes under different kinds included), as one archive each; plus a foreign archive. *)
EXTENDS Rat, TLC, Json, Sequences
CONSTANTS MaxFull, MaxKindsOnly, Dir
VARIABLES vec, phase
L(ts, c) == [kind |-> "linear", terms |-> ts, constant |-> c]
T(i, c) == [id |-> i, c |-> c]
V(id, kind, bound) == [id |-> id, kind |-> kind, bound |-> bound, fixed |-> <<>>, name |-> <<"x">>, subs |-> <<1, 2>>, params |-> << <<"k", "v">> >>, desc |-> <<>>]
C(id, eq, f) == [id |-> id, eq |-> eq, f |-> f, name |-> <<>>, subs |-> <<>>, params |-> <<>>, desc |-> <<"d">>]
DefInst == [sense |-> "unspecified", vars |-> <<>>, objective |-> <<>>, constraints |-> <<>>, removed |-> <<>>, deps |-> <<>>,
            params |-> <<>>, hints |-> <<>>, description |-> <<>>, parameters |-> <<>>]
SmallInst == [DefInst EXCEPT !.sense = "max", !.vars = << V(1, "binary", <<>>), V(4, "continuous", << [lo |-> R(-1), hi |-> PInf] >>) >>,
              !.objective = << L(<< T(1, <<1,2>>), T(4, R(-3)) >>, R(2)) >>,
              !.constraints = << C(7, "le", << [kind |-> "quadratic", rows |-> <<1>>, columns |-> <<4>>, values |-> <<R(2)>>, linear |-> <<>>] >>) >>,
              !.removed = << [c |-> << C(9, "eq", << [kind |-> "constant", c |-> R(0)] >>) >>, reason |-> "why", rparams |-> << <<"a", "b">> >>] >>,
              !.deps = << <<4, L(<< T(1, R(1)) >>, R(0))>> >>, !.params = << << <<5, R(2)>> >> >>,
              !.description = << [name |-> <<"n">>, description |-> <<>>, authors |-> <<"A", "B">>, created_by |-> <<"me">>] >>]
SmallPInst == [SmallInst EXCEPT !.params = <<>>, !.parameters = << [id |-> 50, name |-> <<"p">>, subs |-> <<7>>, params |-> <<>>, desc |-> <<>>] >>]
DefSS == [objectives |-> <<>>, vars |-> <<>>, constraints |-> <<>>, feasible |-> <<>>, feasible_relaxed |-> <<>>, feasible_unrelaxed |-> <<>>, sense |-> "unspecified"]
SmallSS == [DefSS EXCEPT !.objectives = << << [value |-> R(3), ids |-> <<0, 2>>], [value |-> <<1,2>>, ids |-> <<5>>] >> >>,
            !.feasible = << <<0, TRUE>>, <<2, FALSE>>, <<5, TRUE>> >>, !.feasible_relaxed = << <<0, TRUE>>, <<2, TRUE>>, <<5, TRUE>> >>, !.sense = "min",
            !.vars = << [v |-> << V(1, "binary", <<>>) >>, samples |-> << << [value |-> R(1), ids |-> <<0, 2, 5>>] >> >>] >>]
Payload(k, small) == CASE k = "instance" -> IF small THEN SmallInst ELSE DefInst
                       [] k = "parametric" -> IF small THEN SmallPInst ELSE DefInst
                       [] k = "solution" -> IF small THEN << <<1, R(2)>>, <<4, <<-1,2>> >> >> ELSE <<>>
                       [] k = "sample_set" -> IF small THEN SmallSS ELSE DefSS
NoAnnI == [title |-> <<>>, license |-> <<>>, dataset |-> <<>>, authors |-> <<>>, variables |-> <<>>, constraints |-> <<>>, created |-> <<>>, other |-> <<>>]
FullAnnI == [title |-> <<"my title">>, license |-> <<"MIT">>, dataset |-> <<"ds">>, authors |-> << <<"Ann Author", "Bob B.">> >>, variables |-> <<3>>, constraints |-> <<0>>,
             created |-> <<"2024-05-01T12:30:45Z">>, other |-> << <<"org.example.key", "value one">>, <<"x", "y">> >>]
\* annotation values may legally be empty strings; author names are returned exactly as set (surrounding blanks included)
EmptyAnnI == [title |-> <<"">>, license |-> <<"MIT">>, dataset |-> <<"">>, authors |-> << <<" Carol C. ", "D  E", " ">> >>, variables |-> <<0>>, constraints |-> <<>>,
              created |-> <<>>, other |-> << <<"org.ommx.user.comment", "">> >>]
NoAnnS == [start |-> <<>>, end |-> <<>>, instance |-> <<>>, solver |-> <<>>, parameters |-> <<>>, other |-> <<>>]
FullAnnS == [start |-> <<"2024-05-01T12:30:45Z">>, end |-> <<"2024-05-01T12:31:00Z">>,
             instance |-> <<"sha256:1111111111111111111111111111111111111111111111111111111111111111">>,
             solver |-> <<"sha256:2222222222222222222222222222222222222222222222222222222222222222">>,
             parameters |-> << [a |-> 1, b |-> "two"] >>, other |-> << <<"note", "n">> >>]
Ann(k, full) == IF k \in {"instance", "parametric"} THEN (IF full THEN FullAnnI ELSE EmptyAnnI) ELSE (IF full THEN FullAnnS ELSE NoAnnS)
Kinds == {"instance", "parametric", "solution", "sample_set"}
Opts == Kinds \X BOOLEAN
SeqsUpTo(S, n) == UNION { [1..k -> S] : k \in 0..n }
Layer(o, i) == [kind |-> o[1], payload |-> Payload(o[1], o[2]), ann |-> Ann(o[1], (i % 2 = 1) = o[2])]
Ev(s, name) == [ev |-> "artifact", in |-> [dir |-> Dir, name |-> name, foreign |-> FALSE, artifact_type |-> "",
                 layers |-> [ i \in DOMAIN s |-> Layer(s[i], i) ]]]
\* time annotations are returned exactly as set, whatever their sub-second precision
Times == {"2024-05-01T12:30:45Z", "2024-05-01T12:30:45.250Z", "2024-05-01T12:30:45.000123Z", "2024-05-01T12:30:45.123456789Z", "1999-12-31T23:59:59.999999999Z"}
TimeEv(t, u) == [ev |-> "artifact", in |-> [dir |-> Dir, name |-> "times", foreign |-> FALSE, artifact_type |-> "",
   layers |-> << [kind |-> "instance", payload |-> SmallInst, ann |-> [FullAnnI EXCEPT !.created = <<t>>]],
                 [kind |-> "solution", payload |-> Payload("solution", TRUE), ann |-> [FullAnnS EXCEPT !.start = <<t>>, !.end = <<u>>]],
                 [kind |-> "parametric", payload |-> SmallPInst, ann |-> [FullAnnI EXCEPT !.created = <<u>>]],
                 [kind |-> "sample_set", payload |-> SmallSS, ann |-> [FullAnnS EXCEPT !.start = <<u>>, !.end = <<t>>]] >>]]
Step(A) == phase = 0 /\ phase' = 1 /\ A
Init == vec = <<>> /\ phase = 0
Next == Step( \/ \E s \in SeqsUpTo(Opts, MaxFull) : vec' = Ev(s, "full")
              \/ \E s \in UNION { [1..k -> Kinds] : k \in (MaxFull + 1)..MaxKindsOnly } :
                    vec' = Ev([ i \in DOMAIN s |-> <<s[i], i % 3 = 0>> ], "kinds")
              \/ \E t \in Times, u \in Times : vec' = TimeEv(t, u)
              \/ \E ty \in {"application/vnd.oci.empty.v1+json", "application/org.other.v1.artifact", ""} :      \* "" = a plain OCI image: no artifactType at all
                    vec' = [ev |-> "artifact", in |-> [dir |-> Dir, name |-> "foreign", foreign |-> TRUE, artifact_type |-> ty, layers |-> <<>>]] )
Emit == phase = 1 => PrintT("VEC " \o ToJson(vec))
=============================================================================
