------------------------------- MODULE Gen_InstSM -------------------------------
(* Direction A for the instance state machine: every history of MC_InstSM (same initial instance, same action
   alphabet and arguments, the id-creating calls included) is printed as one `seq` vector.  The harness performs the
   calls on the real object, one event per step with the instance before and after; the judge validates every step
   with the clause set of its action, i.e. the implementation is stepped through the specification's behaviours and
   its abstract state compared after each action.  Each history ends with evaluations at grid states (values for
   variables created on the way are completed by the harness, "fill"). *)
EXTENDS MC_InstSM, Json
VARIABLE hist
StSeq(s) == [ k \in 1..Cardinality(DOMAIN s) |-> LET v == SortedIdSeq(DOMAIN s)[k] IN << v, s[v] >> ]
ReplSeq(r) == [ k \in 1..Cardinality(DOMAIN r) |-> LET v == SortedIdSeq(DOMAIN r)[k] IN << v, PolyMsg(r[v]) >> ]
Rec(op) == hist' = Append(hist, op)
HInit == Init /\ hist = <<>>
HPartial == \E s1 \in Parts : /\ DOMAIN s1 \subseteq Free(inst) /\ inst' = PartialEvaluate(inst, s1)
                             /\ Rec([op |-> "inst_partial", st |-> StSeq(s1)])
HRelax == \E c \in inst.active \cup {99} :
            /\ inst' = IF c \in inst.active THEN Relax(inst, c, "r1", <<>>) ELSE inst
            /\ Rec([op |-> "relax", cid |-> c, reason |-> "r1", rparams |-> <<>>])
HRestore == \E c \in DOMAIN inst.removed \cup {99} :
            /\ inst' = IF c \in DOMAIN inst.removed THEN Restore(inst, c) ELSE inst
            /\ Rec([op |-> "restore", cid |-> c])
HSubst == \E r \in Repls : /\ DOMAIN r \subseteq Free(inst) /\ (\A v \in DOMAIN r : Ids(r[v]) \subseteq Free(inst) \ DOMAIN r)
                          /\ inst' = Substitute(inst, r) /\ Rec([op |-> "inst_subst", repl |-> ReplSeq(r)])
HAsMin == inst' = AsMin(inst) /\ Rec([op |-> "as_min"])
HEncode == \E v \in {1, 4} : /\ CanEncode(inst, v) /\ inst.vars[v].fixed = <<>> /\ v \notin DOMAIN inst.deps
              /\ LET r == LogEncodeRef(inst, v) IN inst' = Substitute(r.inst, v :> r.enc)
              /\ Rec([op |-> "encode_subst", vid |-> v])
HSlack == \E c \in inst.active : /\ CanSlack(inst, c) /\ inst' = SlackConvertRef(inst, c).inst
              /\ Rec([op |-> "slack_convert", cid |-> c, max |-> 1000, points |-> "auto"])
HNext == /\ n < MaxOps /\ n' = n + 1
         /\ \/ made' = made /\ (HPartial \/ HRelax \/ HRestore \/ HSubst \/ HAsMin)
            \/ made < MaxNew /\ made' = made + 1 /\ (HEncode \/ HSlack)
\* evaluations closing a history: the original free variables at two grid corners and one interior point
Evals == LET free == { v \in {1, 2, 3} : inst.vars[v].fixed = <<>> /\ v \notin DOMAIN inst.deps } IN
         [ k \in 1..3 |-> [op |-> "evaluate", st |-> StSeq([ v \in free |-> R((k + v) % 3) ]), fill |-> 37 * k] ]
Emit == (n = MaxOps \/ (n >= 1 /\ made = MaxNew /\ MaxNew > 0)) =>
           PrintT("VEC " \o ToJson([ev |-> "seq", in |-> [inst |-> RawOf(I0), ops |-> hist \o Evals]]))
=============================================================================
