CONSTANTS MaxWidth = 4096 HistLen = 4
INIT Init
NEXT DoMpsRoundtrip
INVARIANT Emit
CHECK_DEADLOCK FALSE
