CONSTANTS MaxWidth = 600 HistLen = 3
INIT Init
NEXT DoHistories
INVARIANT Emit
CHECK_DEADLOCK FALSE
