CONSTANTS MaxWidth = 600 HistLen = 3
INIT Init
NEXT DoMpsRoundtrip
INVARIANT Emit
CHECK_DEADLOCK FALSE
