CONSTANTS MaxFull = 4 MaxKindsOnly = 6 Dir = "work/C20/arch"
INIT Init
NEXT Next
INVARIANT Emit
CHECK_DEADLOCK FALSE
