INIT Init
NEXT NextR
INVARIANT Emit
CHECK_DEADLOCK FALSE
