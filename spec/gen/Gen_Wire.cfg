CONSTANT Depth = 2
INIT Init
NEXT Next
INVARIANT Emit
CHECK_DEADLOCK FALSE
