CONSTANTS MaxLin = 2 MaxQuad = 2 MaxQuadLin = 1 MaxMono = 2 MaxMonoLen = 2
INIT Init
NEXT DoPartial
INVARIANT Emit
CHECK_DEADLOCK FALSE
