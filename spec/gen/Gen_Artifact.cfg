CONSTANTS MaxFull = 3 MaxKindsOnly = 4 Dir = "work/C20/arch"
INIT Init
NEXT Next
INVARIANT Emit
CHECK_DEADLOCK FALSE
