CONSTANTS MaxLin = 1 MaxQuad = 1 MaxQuadLin = 0 MaxMono = 1 MaxMonoLen = 2
INIT Init
NEXT DoFmt
INVARIANT Emit
CHECK_DEADLOCK FALSE
