------------------------------- MODULE Gen_Mps -------------------------------
(* MPS files produced by the specification's independent writer (MpsText!Render) together with the abstract
   model whose Meaning the judge compares the loaded instance with.  Exhaustive per dimension + random models. *)
EXTENDS MpsText, TLC, Json, IOUtils
VARIABLES vec, phase
Bd(t, v) == [type |-> t, val |-> v]
BoundScenarios == { <<>>, << Bd("UP", <<R(4)>>) >>, << Bd("UP", <<R(-2)>>) >>, << Bd("LO", <<R(1)>>) >>, << Bd("LO", <<R(-3)>>) >>,
  << Bd("LO", <<R(1)>>), Bd("UP", <<R(4)>>) >>, << Bd("UP", <<R(4)>>), Bd("LO", <<R(1)>>) >>, << Bd("FX", <<R(2)>>) >>,
  << Bd("MI", <<>>) >>, << Bd("MI", <<>>), Bd("UP", <<R(3)>>) >>, << Bd("PL", <<>>) >>, << Bd("FR", <<>>) >>, << Bd("BV", <<>>) >>,
  << Bd("LI", <<R(-2)>>) >>, << Bd("UI", <<R(5)>>) >>, << Bd("LI", <<R(0)>>), Bd("UI", <<R(1)>>) >>, << Bd("UP", <<R(1)>>) >>,
  << Bd("LO", <<R(1)>>), Bd("UP", <<R(1)>>) >>, << Bd("UP", << <<5,2>> >>), Bd("LO", << <<-1,4>> >>) >>, << Bd("LO", <<R(-4)>>), Bd("UP", <<R(-1)>>) >> }
Lay == [two : BOOLEAN, comments : BOOLEAN, blank : BOOLEAN]
Col(name, int, obj, coefs, bounds) == [name |-> name, int |-> int, obj |-> obj, coefs |-> coefs, bounds |-> bounds]
Row(name, type, rhs, range) == [name |-> name, type |-> type, rhs |-> rhs, range |-> range]
Model(sense, own, objRhs, rows, cols) == [name |-> "prob", sense |-> sense, senseOwnLine |-> own, objName |-> "COST", objRhs |-> objRhs, rows |-> rows, cols |-> cols]
Ev(m, lay, fault, via, byId) == [ev |-> "mps_load", in |-> [model |-> m, layout |-> lay, fault |-> fault, via |-> via, by_id |-> byId,
                                  lines |-> IF fault = "none" THEN Render(m, lay) ELSE RenderFault(m, lay, fault)]]
BaseRows == << Row("R1", "L", <<R(4)>>, <<>>), Row("R2", "G", <<R(-1)>>, <<>>) >>
BaseCols == << Col("X", FALSE, <<R(1)>>, << <<1, R(1)>>, <<2, R(2)>> >>, <<>>), Col("Y", TRUE, <<R(-3)>>, << <<1, <<1,2>> >> >>, << Bd("UP", <<R(7)>>) >>) >>
NextBounds == \E sc \in BoundScenarios, int \in BOOLEAN, lay \in Lay :
   vec' = Ev(Model("absent", FALSE, <<>>, BaseRows, << Col("X", int, <<R(1)>>, << <<1, R(1)>> >>, sc), BaseCols[2] >>), lay, "none", "raw", FALSE)
\* every sensible BOUNDS block of one column: at most one lower-type and one upper-type directive in either order, or one
\* directive that sets both ends; values on both sides of 0 and 0 itself
BVals == {R(-2), Zero, One, R(4)}
LowerDirs == { Bd("LO", <<v>>) : v \in BVals } \cup { Bd("LI", <<v>>) : v \in BVals } \cup { Bd("MI", <<>>) }
UpperDirs == { Bd("UP", <<v>>) : v \in BVals } \cup { Bd("UI", <<v>>) : v \in BVals } \cup { Bd("PL", <<>>) }
BothDirs == { Bd("FX", <<v>>) : v \in BVals } \cup { Bd("FR", <<>>), Bd("BV", <<>>) }
BoundBlocks == { <<d>> : d \in LowerDirs \cup UpperDirs \cup BothDirs }
               \cup { <<l, u>> : l \in LowerDirs, u \in UpperDirs } \cup { <<u, l>> : l \in LowerDirs, u \in UpperDirs }
NextBoundBlocks == \E sc \in BoundBlocks, int \in BOOLEAN :
   vec' = Ev(Model("absent", FALSE, <<>>, BaseRows, << Col("X", int, <<R(1)>>, << <<1, R(1)>> >>, sc), BaseCols[2] >>),
             [two |-> FALSE, comments |-> FALSE, blank |-> FALSE], "none", "raw", FALSE)
\* a column that is declared through explicit zero entries only (the usual way a writer lists an unused column): it is a
\* variable of the problem, with its marker kind and bounds
NextZeroColumns == \E int \in BOOLEAN, lay \in Lay, sc \in { <<>>, << Bd("UP", <<R(4)>>) >>, << Bd("LO", <<R(-3)>>), Bd("UP", <<R(-1)>>) >> },
                      shape \in {"obj", "row", "both"} :
   vec' = Ev(Model("absent", FALSE, <<>>, BaseRows,
                   << BaseCols[1],
                      Col("Z", int, IF shape = "row" THEN <<>> ELSE <<Zero>>, IF shape = "obj" THEN <<>> ELSE << <<1, Zero>>, <<2, Zero>> >>, sc),
                      BaseCols[2] >>), lay, "none", "raw", FALSE)
NextRows == \E ty \in {"E", "L", "G"}, rhs \in {<<>>, <<R(3)>>, <<R(-2)>>}, rng \in {<<>>, <<R(2)>>, <<R(-2)>>, << <<1,2>> >>},
               orhs \in {<<>>, <<R(5)>>, <<R(-1)>>}, lay \in [two : BOOLEAN, comments : {FALSE}, blank : {FALSE}] :
   vec' = Ev(Model("absent", FALSE, orhs, << Row("R1", ty, rhs, rng), BaseRows[2] >>, BaseCols), lay, "none", "raw", FALSE)
NextSense == \E s \in {<<"absent", FALSE>>, <<"MIN", FALSE>>, <<"MAX", FALSE>>, <<"MAX", TRUE>>, <<"MIN", TRUE>>}, lay \in Lay, via \in {"raw", "zipped", "file"} :
   vec' = Ev(Model(s[1], s[2], <<R(2)>>, BaseRows, BaseCols), lay, "none", via, FALSE)
\* OMMX-style names: ids are recovered from the names
OmmxCols == << Col("OMMX_VAR_7", FALSE, <<R(1)>>, << <<1, R(1)>>, <<2, R(2)>> >>, <<>>), Col("OMMX_VAR_3", TRUE, <<>>, << <<2, R(-1)>> >>, << Bd("UP", <<R(7)>>) >>) >>
OmmxRows == << Row("OMMX_CONSTR_12", "L", <<R(4)>>, <<>>), Row("OMMX_CONSTR_5", "E", <<>>, <<>>) >>
NextNames == \E lay \in Lay : \/ vec' = Ev(Model("MAX", FALSE, <<R(1)>>, OmmxRows, OmmxCols), lay, "none", "raw", TRUE)
                              \/ vec' = Ev(Model("MIN", FALSE, <<>>, <<>>, << Col("only", FALSE, <<R(2)>>, <<>>, <<>>) >>), lay, "none", "raw", FALSE)
                              \/ vec' = Ev(Model("MIN", FALSE, <<>>, << Row("EMPTY", "E", <<R(1)>>, <<>>), BaseRows[1] >>, BaseCols), lay, "none", "raw", FALSE)
NextFaults == \E f \in {"undeclared_col_row", "undeclared_rhs_row", "undeclared_range_row", "bad_rowtype", "bad_boundtype", "bad_marker", "bad_sense", "bad_number"},
                 lay \in Lay, ranged \in BOOLEAN :
   vec' = Ev(Model("absent", FALSE, <<>>, << Row("R1", "L", <<R(4)>>, IF ranged THEN <<R(1)>> ELSE <<>>), BaseRows[2] >>, BaseCols), lay, f, "raw", FALSE)
\* ---- random models (<= 6 columns x <= 5 rows): the MODELS are drawn by the seeded driver of the harness
\* (file named by the environment variable MODELS); rendering and meaning stay here
Models == IF "MODELS" \in DOMAIN IOEnv THEN ndJsonDeserialize(IOEnv.MODELS) ELSE <<>>
NextRandom == \E k \in DOMAIN Models : vec' = Ev(Models[k].model, Models[k].layout, "none", Models[k].via, FALSE)
Step(A) == phase = 0 /\ phase' = 1 /\ A
Init == vec = <<>> /\ phase = 0
Next == Step(NextBounds \/ NextBoundBlocks \/ NextZeroColumns \/ NextRows \/ NextSense \/ NextNames \/ NextFaults)
NextR == Step(NextRandom)
Emit == phase = 1 => PrintT("VEC " \o ToJson(vec))
=============================================================================
