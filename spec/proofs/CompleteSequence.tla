------------------------------- MODULE CompleteSequence -------------------------------
(* Unbounded backing for Inst!CoversByCriterion (C12, widths above the brute-force limit of 4096).

   The criterion walks the coefficients in ascending order and keeps the total `sum` of the ones seen so far;
   it accepts when every coefficient c satisfies 1 <= c <= sum + 1.  The invariant of that walk is
        the subset sums of the coefficients seen so far are exactly 0..sum,
   and the theorems below are its inductive step (soundness: Cover) and the reason the condition is also necessary
   for sorted sequences (Gap): they are checked by the TLA+ proof system for ALL integers, whereas
   MC_LogEncode!Criterion compares the criterion with brute force only for small sequences.

   Subset sums after adding c:  S' = S \cup { s + c : s \in S }.  With S = 0..sum this is
   0..sum \cup c..(sum + c), written below without sets. *)
EXTENDS Integers

InOld(x, sum) == 0 <= x /\ x <= sum
InShift(x, sum, c) == c <= x /\ x <= sum + c

THEOREM Cover ==
  ASSUME NEW sum \in Int, NEW c \in Int, sum >= 0, 1 <= c, c <= sum + 1
  PROVE  \A x \in Int : (InOld(x, sum) \/ InShift(x, sum, c)) <=> (0 <= x /\ x <= sum + c)
  BY DEF InOld, InShift

(* If a coefficient exceeds sum + 1 then the value sum + 1 is not reachable by it, and - the sequence being sorted -
   not by any later coefficient either, while the total is at least sum + c > sum + 1: a gap remains. *)
THEOREM Gap ==
  ASSUME NEW sum \in Int, NEW c \in Int, sum >= 0, c > sum + 1
  PROVE  /\ ~(InOld(sum + 1, sum) \/ InShift(sum + 1, sum, c))
         /\ sum + 1 < sum + c
  BY DEF InOld, InShift

(* The reference log-encoding of a width w >= 1 with n = ceil(log2(w + 1)) bits uses 1, 2, ..., 2^(n-2) and the capped
   last coefficient w - 2^(n-1) + 1.  With p = 2^(n-1) (so p <= w < 2p): the first n-1 coefficients sum to p - 1 and
   each equals (sum so far) + 1; the last one satisfies the condition and brings the total to exactly w. *)
THEOREM LastCoefficient ==
  ASSUME NEW w \in Int, NEW p \in Int, p >= 1, p <= w, w < 2 * p
  PROVE  LET last == w - p + 1 IN 1 <= last /\ last <= (p - 1) + 1 /\ (p - 1) + last = w
  OBVIOUS
THEOREM Doubling ==
  ASSUME NEW s \in Int, s >= 0
  PROVE  LET c == s + 1 IN 1 <= c /\ c <= s + 1 /\ s + c = 2 * c - 1
  OBVIOUS
=============================================================================
