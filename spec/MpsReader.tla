------------------------------- MODULE MpsReader -------------------------------
(* An OPERATIONAL specification of reading a free-format MPS file: a state machine that consumes the file line
   by line (one action per kind of line, a cursor per section), as a reader has to.  It complements the
   declarative MpsText!Meaning: mc/MC_MpsReader checks, for every model of the exhaustive families and every
   layout, that running this machine on the rendered file ends in exactly the problem that Meaning assigns to
   the model, and that every injected fault stops it with the corresponding error.

   A file is a sequence of LINES, each already split into whitespace-separated tokens:
       [hdr |-> TRUE,  toks |-> <<"ROWS">>]            a header line (starts in column 1)
       [hdr |-> FALSE, toks |-> <<"L", "R1">>]          a field line (starts with a blank)
   (joining tokens with blanks / splitting at blanks is the only thing not modelled).  Numbers are tokens of the
   form produced by MpsText!Dec; the reader maps them back with NumOf (a table built from the numbers that occur
   in the model, because TLC cannot parse strings). *)
EXTENDS MpsText
\* ---------------------------------------------------------------- token-level rendering (same layout as Render)
HL(ws) == [hdr |-> TRUE, toks |-> ws]
FL(ws) == [hdr |-> FALSE, toks |-> ws]
RECURSIVE PackT(_,_,_)
PackT(first, es, two) ==
  IF es = <<>> THEN <<>>
  ELSE IF two /\ Len(es) >= 2 THEN << FL(<<first, es[1][1], Dec(es[1][2]), es[2][1], Dec(es[2][2])>>) >> \o PackT(first, SubSeq(es, 3, Len(es)), two)
  ELSE << FL(<<first, es[1][1], Dec(es[1][2])>>) >> \o PackT(first, Tail(es), two)
RECURSIVE ColLinesT(_,_,_,_,_)
ColLinesT(m, cs, inInt, mk, two) ==
  IF cs = <<>> THEN (IF inInt THEN << FL(<<"MARKER" \o Digits(mk), "'MARKER'", "'INTEND'">>) >> ELSE <<>>)
  ELSE LET c == Head(cs)
           open == IF c.int /\ ~inInt THEN << FL(<<"MARKER" \o Digits(mk), "'MARKER'", "'INTORG'">>) >> ELSE <<>>
           close == IF ~c.int /\ inInt THEN << FL(<<"MARKER" \o Digits(mk), "'MARKER'", "'INTEND'">>) >> ELSE <<>>
           mk2 == IF open # <<>> \/ close # <<>> THEN mk + 1 ELSE mk
       IN open \o close \o PackT(c.name, ColEntries(m, c), two) \o ColLinesT(m, Tail(cs), c.int, mk2, two)
BoundLinesT(m) == FlattenSeq([ j \in DOMAIN m.cols |->
                   [ k \in DOMAIN m.cols[j].bounds |-> LET b == m.cols[j].bounds[k] IN
                       FL(<<b.type, "BND", m.cols[j].name>> \o (IF b.val = <<>> THEN <<>> ELSE <<Dec(b.val[1])>>)) ] ])
RenderT(m, lay) ==
  LET rhs == (IF m.objRhs = <<>> THEN <<>> ELSE << <<m.objName, m.objRhs[1]>> >>) \o RowsWith(m, LAMBDA r : r.rhs)
      rng == RowsWith(m, LAMBDA r : r.range)
  IN << HL(<<"NAME", m.name>>) >>
     \o (IF m.sense = "absent" THEN <<>> ELSE IF m.senseOwnLine THEN << HL(<<"OBJSENSE">>), FL(<<m.sense>>) >> ELSE << HL(<<"OBJSENSE", m.sense>>) >>)
     \o << HL(<<"ROWS">>), FL(<<"N", m.objName>>) >> \o [ i \in DOMAIN m.rows |-> FL(<<m.rows[i].type, m.rows[i].name>>) ]
     \o << HL(<<"COLUMNS">>) >> \o ColLinesT(m, m.cols, FALSE, 0, lay.two)
     \o << HL(<<"RHS">>) >> \o PackT("RHS", rhs, lay.two)
     \o (IF rng = <<>> THEN <<>> ELSE << HL(<<"RANGES">>) >> \o PackT("RNG", rng, lay.two))
     \o (IF BoundLinesT(m) = <<>> THEN <<>> ELSE << HL(<<"BOUNDS">>) >> \o BoundLinesT(m))
     \o << HL(<<"ENDATA">>) >>
\* the text lines of the token lines (comments and blank lines are dropped by the reader before tokenising)
TextOf(ls) == [ i \in DOMAIN ls |-> IF ls[i].hdr THEN (LET RECURSIVE J(_)  J(s) == IF Len(s) = 1 THEN s[1] ELSE s[1] \o " " \o J(Tail(s)) IN J(ls[i].toks))
                                    ELSE Line(ls[i].toks) ]

\* ---------------------------------------------------------------- the reader
\* tables of the parsed file (the `Mps` struct of the implementation, as sets / functions)
EmptyTables == [ objName |-> "", sense |-> "MIN", rowType |-> <<>>, rowOrder |-> <<>>, a |-> <<>>, c |-> <<>>, b |-> <<>>,
                 l |-> <<>>, u |-> <<>>, integer |-> {}, binary |-> {}, real |-> {}, vars |-> <<>> ]
Upd(f, k, v) == [ x \in DOMAIN f \cup {k} |-> IF x = k THEN v ELSE f[x] ]
Has(f, k) == k \in DOMAIN f
VARIABLES file,      \* the token lines
          nums,      \* token -> Rat for the numbers of this file
          pos, cursor, isInt, waitSense, t, err
rvars == <<file, nums, pos, cursor, isInt, waitSense, t, err>>
Cur == file[pos]
Advance == pos' = pos + 1 /\ UNCHANGED <<file, nums>>
IsNumTok(x) == x \in DOMAIN nums
Fail(e) == err' = e /\ UNCHANGED <<cursor, isInt, waitSense, t>> /\ Advance
\* -- header lines -------------------------------------------------------------------------------------------
ReadHeader ==
  /\ err = "" /\ pos <= Len(file) /\ Cur.hdr /\ cursor # "End"
  /\ LET w == Cur.toks IN
     IF w[1] = "NAME" THEN UNCHANGED <<cursor, isInt, waitSense, t, err>> /\ Advance
     ELSE IF w[1] = "OBJSENSE" THEN
        IF Len(w) = 1 THEN waitSense' = TRUE /\ UNCHANGED <<cursor, isInt, t, err>> /\ Advance
        ELSE IF w[2] \in {"MIN", "MAX"} THEN t' = [t EXCEPT !.sense = w[2]] /\ UNCHANGED <<cursor, isInt, waitSense, err>> /\ Advance
        ELSE Fail("InvalidObjSense")
     ELSE IF w[1] \in {"ROWS", "COLUMNS", "RHS", "RANGES", "BOUNDS", "ENDATA"} THEN
        /\ cursor' = (CASE w[1] = "ROWS" -> "Rows" [] w[1] = "COLUMNS" -> "Columns" [] w[1] = "RHS" -> "Rhs"
                        [] w[1] = "RANGES" -> "Ranges" [] w[1] = "BOUNDS" -> "Bounds" [] w[1] = "ENDATA" -> "End")
        /\ UNCHANGED <<isInt, waitSense, t, err>> /\ Advance
     ELSE Fail("InvalidHeader")
\* -- field lines ----------------------------------------------------------------------------------------------
ReadObjSenseLine ==
  /\ err = "" /\ pos <= Len(file) /\ ~Cur.hdr /\ waitSense
  /\ IF Cur.toks[1] \in {"MIN", "MAX"} THEN t' = [t EXCEPT !.sense = Cur.toks[1]] /\ waitSense' = FALSE /\ UNCHANGED <<cursor, isInt, err>> /\ Advance
     ELSE Fail("InvalidObjSense")
ReadRow ==
  /\ err = "" /\ pos <= Len(file) /\ ~Cur.hdr /\ ~waitSense /\ cursor = "Rows"
  /\ LET ty == Cur.toks[1]  name == Cur.toks[2] IN
     IF ty = "N" THEN t' = (IF t.objName = "" THEN [t EXCEPT !.objName = name] ELSE t) /\ UNCHANGED <<cursor, isInt, waitSense, err>> /\ Advance
     ELSE IF ty \in {"E", "L", "G"} THEN
        t' = [t EXCEPT !.rowType = Upd(@, name, ty), !.rowOrder = Append(@, name), !.a = Upd(@, name, <<>>)]
        /\ UNCHANGED <<cursor, isInt, waitSense, err>> /\ Advance
     ELSE Fail("InvalidRowType")
\* entries <<row, value>> carried by a line after its first token
Entries(w) == [ k \in 1..((Len(w) - 1) \div 2) |-> <<w[2 * k], w[2 * k + 1]>> ]
ReadColumn ==
  /\ err = "" /\ pos <= Len(file) /\ ~Cur.hdr /\ ~waitSense /\ cursor = "Columns"
  /\ LET w == Cur.toks IN
     IF w[2] = "'MARKER'" THEN
        IF w[3] = "'INTORG'" THEN isInt' = TRUE /\ UNCHANGED <<cursor, waitSense, t, err>> /\ Advance
        ELSE IF w[3] = "'INTEND'" THEN isInt' = FALSE /\ UNCHANGED <<cursor, waitSense, t, err>> /\ Advance
        ELSE Fail("InvalidMarker")
     ELSE LET col == w[1]  es == Entries(w)
              badnum == \E k \in DOMAIN es : ~IsNumTok(es[k][2])
              badrow == \E k \in DOMAIN es : es[k][1] # t.objName /\ ~Has(t.a, es[k][1])
              t1 == [t EXCEPT !.vars = IF \E i \in DOMAIN @ : @[i] = col THEN @ ELSE Append(@, col),
                              !.integer = IF isInt THEN @ \cup {col} ELSE @,
                              !.real = IF isInt THEN @ ELSE @ \cup {col}]
              RECURSIVE Put(_,_)
              Put(tt, k) == IF k > Len(es) THEN tt
                            ELSE IF es[k][1] = t.objName THEN Put([tt EXCEPT !.c = Upd(@, col, nums[es[k][2]])], k + 1)
                            ELSE Put([tt EXCEPT !.a = Upd(@, es[k][1], Upd(@[es[k][1]], col, nums[es[k][2]]))], k + 1)
          IN IF badnum THEN Fail("ParseFloat") ELSE IF badrow THEN Fail("UnknownRowName")
             ELSE t' = Put(t1, 1) /\ UNCHANGED <<cursor, isInt, waitSense, err>> /\ Advance
ReadRhs ==
  /\ err = "" /\ pos <= Len(file) /\ ~Cur.hdr /\ ~waitSense /\ cursor = "Rhs"
  /\ LET es == Entries(Cur.toks)
         badnum == \E k \in DOMAIN es : ~IsNumTok(es[k][2])
         badrow == \E k \in DOMAIN es : es[k][1] # t.objName /\ ~Has(t.a, es[k][1])
         RECURSIVE Put(_,_)
         Put(tt, k) == IF k > Len(es) THEN tt ELSE Put([tt EXCEPT !.b = Upd(@, es[k][1], nums[es[k][2]])], k + 1)
     IN IF badnum THEN Fail("ParseFloat") ELSE IF badrow THEN Fail("UnknownRowName")
        ELSE t' = Put(t, 1) /\ UNCHANGED <<cursor, isInt, waitSense, err>> /\ Advance
\* a RANGES entry splits the row into the pair of one-sided rows of the sign table; the second row gets a fresh name
ReadRange ==
  /\ err = "" /\ pos <= Len(file) /\ ~Cur.hdr /\ ~waitSense /\ cursor = "Ranges"
  /\ LET es == Entries(Cur.toks)
         badnum == \E k \in DOMAIN es : ~IsNumTok(es[k][2])
         badrow == \E k \in DOMAIN es : ~Has(t.a, es[k][1])
         RECURSIVE Put(_,_)
         Put(tt, k) ==
           IF k > Len(es) THEN tt
           ELSE LET row == es[k][1]  rr == nums[es[k][2]]  absR == RAbs(rr)
                    b0 == IF Has(tt.b, row) THEN tt.b[row] ELSE Zero
                    new == row \o "_"
                    ty == tt.rowType[row]
                    \* (type of the original row afterwards, type of the new row, rhs of the new row)
                    plan == CASE ty = "E" /\ RSign(rr) > 0 -> <<"G", "L", RAdd(b0, absR)>>
                              [] ty = "E" -> <<"L", "G", RSub(b0, absR)>>
                              [] ty = "G" -> <<"G", "L", RAdd(b0, absR)>>
                              [] ty = "L" -> <<"L", "G", RSub(b0, absR)>>
                IN Put([tt EXCEPT !.rowType = Upd(Upd(@, row, plan[1]), new, plan[2]), !.rowOrder = Append(@, new),
                                  !.a = Upd(@, new, tt.a[row]), !.b = Upd(@, new, plan[3])], k + 1)
     IN IF badnum THEN Fail("ParseFloat") ELSE IF badrow THEN Fail("UnknownRowName")
        ELSE t' = Put(t, 1) /\ UNCHANGED <<cursor, isInt, waitSense, err>> /\ Advance
ReadBound ==
  /\ err = "" /\ pos <= Len(file) /\ ~Cur.hdr /\ ~waitSense /\ cursor = "Bounds"
  /\ LET w == Cur.toks  ty == w[1]  col == w[3]
         needs == ty \in {"LO", "UP", "FX", "LI", "UI"}
         v == IF needs /\ Len(w) >= 4 /\ IsNumTok(w[4]) THEN nums[w[4]] ELSE Zero IN
     IF ty \notin {"LO", "UP", "FX", "MI", "PL", "FR", "BV", "LI", "UI"} THEN Fail("InvalidBoundType")
     ELSE IF needs /\ (Len(w) < 4 \/ ~IsNumTok(w[4])) THEN Fail("ParseFloat")
     ELSE /\ t' = CASE ty = "LO" -> [t EXCEPT !.l = Upd(@, col, v)]
                    [] ty = "UP" -> [t EXCEPT !.u = Upd(@, col, v)]
                    [] ty = "FX" -> [t EXCEPT !.l = Upd(@, col, v), !.u = Upd(@, col, v)]
                    [] ty = "MI" -> [t EXCEPT !.l = Upd(@, col, NInf)]
                    [] ty = "PL" -> t
                    [] ty = "FR" -> [t EXCEPT !.l = Upd(@, col, NInf), !.u = Upd(@, col, PInf)]
                    [] ty = "BV" -> [t EXCEPT !.l = Upd(@, col, Zero), !.u = Upd(@, col, One), !.binary = @ \cup {col},
                                              !.integer = @ \ {col}, !.real = @ \ {col}]
                    [] ty = "LI" -> [t EXCEPT !.l = Upd(@, col, v), !.integer = @ \cup {col}, !.real = @ \ {col}]
                    [] ty = "UI" -> [t EXCEPT !.u = Upd(@, col, v), !.integer = @ \cup {col}, !.real = @ \ {col}]
          /\ UNCHANGED <<cursor, isInt, waitSense, err>> /\ Advance
ReadInName == /\ err = "" /\ pos <= Len(file) /\ ~Cur.hdr /\ ~waitSense /\ cursor = "Name" /\ Fail("InvalidHeader")
RNext == ReadHeader \/ ReadObjSenseLine \/ ReadRow \/ ReadColumn \/ ReadRhs \/ ReadRange \/ ReadBound \/ ReadInName
Finished == err # "" \/ cursor = "End" \/ pos > Len(file)
\* ---------------------------------------------------------------- from the tables to the problem (finish + convert)
ColDomainOf(tt, col) ==
  LET hasL == Has(tt.l, col)  hasU == Has(tt.u, col)
      lo == IF hasL THEN tt.l[col] ELSE IF hasU /\ IsFin(tt.u[col]) /\ RLeq(tt.u[col], Zero) THEN NInf ELSE Zero
      hi == IF hasU THEN tt.u[col] ELSE PInf
      discrete == col \in tt.integer \cup tt.binary
  IN [discrete |-> discrete, lo |-> lo, hi |-> hi]
RowConOf(tt, row) ==
  LET a == tt.a[row]  b == IF Has(tt.b, row) THEN tt.b[row] ELSE Zero  ty == tt.rowType[row] IN
  CASE ty = "E" -> [eq |-> "eq", coefs |-> a, constant |-> RNeg(b)]
    [] ty = "L" -> [eq |-> "le", coefs |-> a, constant |-> RNeg(b)]
    [] ty = "G" -> [eq |-> "le", coefs |-> NegF(a), constant |-> b]
ReaderMeaning(tt) ==
  [ sense |-> IF tt.sense = "MAX" THEN "max" ELSE "min",
    objCoefs |-> tt.c, objConstant |-> IF Has(tt.b, tt.objName) THEN RNeg(tt.b[tt.objName]) ELSE Zero,
    cons |-> { RowConOf(tt, tt.rowOrder[i]) : i \in DOMAIN tt.rowOrder },
    ncons |-> Len(tt.rowOrder),
    domains |-> [ col \in { tt.vars[i] : i \in DOMAIN tt.vars } |-> ColDomainOf(tt, col) ] ]
\* the declarative meaning in the same shape
DeclMeaning(m) ==
  LET M == Meaning(m) IN
  [ sense |-> M.sense, objCoefs |-> M.objCoefs, objConstant |-> M.objConstant,
    cons |-> UNION { { M.cons[i][k] : k \in DOMAIN M.cons[i] } : i \in DOMAIN M.cons },
    ncons |-> LET RECURSIVE S(_)  S(i) == IF i = 0 THEN 0 ELSE Len(M.cons[i]) + S(i - 1) IN S(Len(M.cons)),
    domains |-> M.domains ]
\* numbers occurring in a model, as the token table the reader parses with
ModelNums(m) == { m.rows[i].rhs[1] : i \in { j \in DOMAIN m.rows : m.rows[j].rhs # <<>> } }
             \cup { m.rows[i].range[1] : i \in { j \in DOMAIN m.rows : m.rows[j].range # <<>> } }
             \cup (IF m.objRhs = <<>> THEN {} ELSE { m.objRhs[1] })
             \cup UNION { (IF m.cols[j].obj = <<>> THEN {} ELSE { m.cols[j].obj[1] })
                          \cup { m.cols[j].coefs[k][2] : k \in DOMAIN m.cols[j].coefs }
                          \cup { m.cols[j].bounds[k].val[1] : k \in { x \in DOMAIN m.cols[j].bounds : m.cols[j].bounds[x].val # <<>> } } : j \in DOMAIN m.cols }
NumTable(m) == [ tok \in { Dec(x) : x \in ModelNums(m) } \cup {"1"} |-> IF tok = "1" THEN One ELSE CHOOSE x \in ModelNums(m) : Dec(x) = tok ]
=============================================================================
