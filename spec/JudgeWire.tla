------------------------------- MODULE JudgeWire -------------------------------
(* Clauses for the wire format (C07): static agreement of the three schema tables and dynamic conformance of the
   SDK's codec with the published schema (the table P extracted from proto/ommx/v1/*.proto, file named by the
   environment variable SCHEMA). *)
EXTENDS Wire, Json, IOUtils
WireEvents == {"schema_msg", "schema_enum", "wire_decode", "wire_encode", "wire_redecode", "artifact_file"}
SchemaP == IF "SCHEMA" \in DOMAIN IOEnv THEN JsonDeserialize(IOEnv.SCHEMA).messages ELSE <<>>
WOk(e) == e.out.tag = "ok"
ClausesSchema(e) ==
  [ in_proto  |-> e.in.P # <<>>,
    \* (a message with a hand-written codec has no attribute table; the behavioural clauses below decide it)
    rust_matches_proto   |-> e.in.R = e.in.P \/ ("Rhand" \in DOMAIN e.in /\ e.in.Rhand),
    python_matches_proto |-> e.in.Y = e.in.P,
    \* the PUBLISHED schema (frozen at the baseline: the numbers releases in the field wrote their bytes with) is kept: the
    \* live schema may add fields, messages and enum values, but every published field keeps its number, name, type and label
    published_kept |-> ("Pub" \in DOMAIN e.in /\ e.in.Pub # <<>>) =>
                          /\ e.in.P # <<>>
                          /\ \A i \in DOMAIN e.in.Pub[1] : \E j \in DOMAIN e.in.P[1] : e.in.P[1][j] = e.in.Pub[1][i] ]
ClausesWireDecode(e) ==
  LET T == e.in.type IN
  IF ~WOk(e) THEN [ no_error |-> FALSE ]
  ELSE LET tin == Decode(SchemaP, T, e.in.bytes)  tout == Decode(SchemaP, T, e.out.bytes) IN
  [ no_error |-> TRUE,
    generator_sane |-> tin.bad = 0 /\ (e.in.layout.unknown <=> tin.ut > 0),
    content |-> Strip(SchemaP, T, tin) = Strip(SchemaP, T, tout),
    no_unknown_out |-> tout.ut = 0 /\ tout.bad = 0,
    stable |-> e.out.stable ]
ClausesWireEncode(e) ==
  LET T == e.in.wtype IN
  IF ~WOk(e) THEN [ no_error |-> FALSE ]
  ELSE LET t1 == Decode(SchemaP, T, e.out.bytes)  t2 == Decode(SchemaP, T, e.out.again) IN
  [ no_error |-> TRUE,
    no_unknown_fields |-> t1.ut = 0 /\ t1.bad = 0,
    roundtrip_equal |-> e.out.stable,
    reencode_same_content |-> Strip(SchemaP, T, t1) = Strip(SchemaP, T, t2) ]
KindType(k) == CASE k = "instance" -> "instance" [] k = "parametric" -> "parametricinstance" [] k = "solution" -> "state"
                 [] k = "sample_set" -> "sampleset" [] OTHER -> "?"
AsOfW(layer, k) == CASE k = "instance" -> layer.as.instance [] k = "parametric" -> layer.as.parametric
                     [] k = "solution" -> layer.as.solution [] k = "sample_set" -> layer.as.sample_set
ClausesArtifactFile(e) ==
  IF ~WOk(e) THEN [ old_artifact_readable |-> FALSE ]
  ELSE [ old_artifact_readable |-> Len(e.out.layers) >= 1 /\ \A i \in DOMAIN e.out.layers :
           LET l == e.out.layers[i] IN
           /\ KindType(l.kind) # "?" /\ AsOfW(l, l.kind).tag = "ok" /\ l.raw.tag = "ok"
           /\ LET t == Decode(SchemaP, KindType(l.kind), l.raw.bytes) IN t.ut = 0 /\ t.bad = 0 /\ Len(t.fields) >= 1 ]
\* bytes written by the SDK (a) and their canonical re-encoding by the specification (b), both read back by prost
ClausesWireRedecode(e) ==
  LET T == e.in.type IN
  [ no_error |-> WOk(e),
    redecode_equal |-> WOk(e) /\ e.out.equal,
    reencoding_same_content |-> Strip(SchemaP, T, Decode(SchemaP, T, e.in.a)) = Strip(SchemaP, T, Decode(SchemaP, T, e.in.b)) ]
ClausesWire(e) == CASE e.ev \in {"schema_msg", "schema_enum"} -> ClausesSchema(e)
                    [] e.ev = "wire_decode" -> ClausesWireDecode(e)
                    [] e.ev = "wire_encode" -> ClausesWireEncode(e)
                    [] e.ev = "wire_redecode" -> ClausesWireRedecode(e)
                    [] e.ev = "artifact_file" -> ClausesArtifactFile(e)
=============================================================================
