------------------------------- MODULE MpsText -------------------------------
(* The free-format MPS text format as a declarative pair:
     Render(model, layout) : the file (sequence of lines) an independent writer produces for an abstract model
     Meaning(model)        : the optimisation problem the format definition assigns to that model
   The model:  [ name, sense \in {"absent","MIN","MAX"}, senseOwnLine \in BOOLEAN, objName, objRhs : 0/1-seq Rat,
                 rows : Seq([name, type \in {"E","L","G"}, rhs : 0/1-seq, range : 0/1-seq]),
                 cols : Seq([name, int \in BOOLEAN, obj : 0/1-seq Rat, coefs : Seq(<<row index, Rat>>),
                             bounds : Seq([type, val : 0/1-seq Rat])]) ]
   Numbers are integers or multiples of 1/4 (rendered as decimals). *)
EXTENDS JudgeInst
\* ---------------------------------------------------------------- rendering
Digits(n) == ToString(n)
Dec(x) == \* x = <<p,q>> with q \in {1,2,4}
  LET neg == x[1] < 0  a == IF neg THEN -x[1] ELSE x[1]
      whole == a \div x[2]  frac == ((a % x[2]) * 100) \div x[2]
      body == IF x[2] = 1 THEN Digits(whole)
              ELSE Digits(whole) \o "." \o (IF frac < 10 THEN "0" ELSE "") \o Digits(frac)
  IN IF x = PInf THEN "inf" ELSE IF x = NInf THEN "-inf" ELSE (IF neg THEN "-" ELSE "") \o body
RECURSIVE Join(_)
Join(ws) == IF ws = <<>> THEN "" ELSE IF Len(ws) = 1 THEN ws[1] ELSE ws[1] \o "  " \o Join(Tail(ws))
Line(ws) == " " \o Join(ws)
\* entries (<<rowname, value>>) of one column packed 1 or 2 per line
RECURSIVE Pack(_,_,_)
Pack(first, es, two) ==
  IF es = <<>> THEN <<>>
  ELSE IF two /\ Len(es) >= 2 THEN << Line(<<first, es[1][1], Dec(es[1][2]), es[2][1], Dec(es[2][2])>>) >> \o Pack(first, SubSeq(es, 3, Len(es)), two)
  ELSE << Line(<<first, es[1][1], Dec(es[1][2])>>) >> \o Pack(first, Tail(es), two)
ColEntries(m, c) == (IF c.obj = <<>> THEN <<>> ELSE << <<m.objName, c.obj[1]>> >>)
                    \o [ k \in DOMAIN c.coefs |-> <<m.rows[c.coefs[k][1]].name, c.coefs[k][2]>> ]
RECURSIVE ColLines(_,_,_,_,_)
ColLines(m, cs, inInt, mk, two) ==
  IF cs = <<>> THEN (IF inInt THEN << Line(<<"MARKER" \o Digits(mk), "'MARKER'", "'INTEND'">>) >> ELSE <<>>)
  ELSE LET c == Head(cs)
           open == IF c.int /\ ~inInt THEN << Line(<<"MARKER" \o Digits(mk), "'MARKER'", "'INTORG'">>) >> ELSE <<>>
           close == IF ~c.int /\ inInt THEN << Line(<<"MARKER" \o Digits(mk), "'MARKER'", "'INTEND'">>) >> ELSE <<>>
           mk2 == IF open # <<>> \/ close # <<>> THEN mk + 1 ELSE mk
       IN open \o close \o Pack(c.name, ColEntries(m, c), two) \o ColLines(m, Tail(cs), c.int, mk2, two)
RowsWith(m, F(_)) == LET idx == SelectSeq([ i \in DOMAIN m.rows |-> i ], LAMBDA i : F(m.rows[i]) # <<>>) IN
                     [ k \in DOMAIN idx |-> <<m.rows[idx[k]].name, F(m.rows[idx[k]])[1]>> ]
BoundLines(m) == FlattenSeq([ j \in DOMAIN m.cols |->
                   [ k \in DOMAIN m.cols[j].bounds |-> LET b == m.cols[j].bounds[k] IN
                       Line(<<b.type, "BND", m.cols[j].name>> \o (IF b.val = <<>> THEN <<>> ELSE <<Dec(b.val[1])>>)) ] ])
Render(m, lay) ==
  LET cmt == IF lay.comments THEN << "* a comment line" >> ELSE <<>>
      blank == IF lay.blank THEN << "" >> ELSE <<>>
      rhs == (IF m.objRhs = <<>> THEN <<>> ELSE << <<m.objName, m.objRhs[1]>> >>) \o RowsWith(m, LAMBDA r : r.rhs)
      rng == RowsWith(m, LAMBDA r : r.range)
  IN << "NAME " \o m.name >> \o cmt
     \o (IF m.sense = "absent" THEN <<>> ELSE IF m.senseOwnLine THEN << "OBJSENSE", Line(<<m.sense>>) >> ELSE << "OBJSENSE " \o m.sense >>)
     \o << "ROWS", Line(<<"N", m.objName>>) >> \o [ i \in DOMAIN m.rows |-> Line(<<m.rows[i].type, m.rows[i].name>>) ] \o blank
     \o << "COLUMNS" >> \o ColLines(m, m.cols, FALSE, 0, lay.two) \o cmt
     \o << "RHS" >> \o Pack("RHS", rhs, lay.two)
     \o (IF rng = <<>> THEN <<>> ELSE << "RANGES" >> \o Pack("RNG", rng, lay.two))
     \o (IF BoundLines(m) = <<>> THEN <<>> ELSE << "BOUNDS" >> \o BoundLines(m)) \o blank
     \o << "ENDATA" >>

\* fault injection: one offending line added to an otherwise well-formed file
HasLine(ls, x) == \E i \in DOMAIN ls : ls[i] = x
IdxOf(ls, x) == CHOOSE i \in DOMAIN ls : ls[i] = x
InsertAfter(ls, x, new) == LET i == IdxOf(ls, x) IN SubSeq(ls, 1, i) \o new \o SubSeq(ls, i + 1, Len(ls))
InsertBefore(ls, x, new) == LET i == IdxOf(ls, x) IN SubSeq(ls, 1, i - 1) \o new \o SubSeq(ls, i, Len(ls))
RenderFault(m, lay, fault) ==
  LET ls == Render(m, lay)  tail == IF HasLine(ls, "BOUNDS") THEN "BOUNDS" ELSE "ENDATA" IN
  CASE fault = "undeclared_col_row" -> InsertAfter(ls, "COLUMNS", << Line(<<"ZZ", "NOROW", "1">>) >>)
    [] fault = "undeclared_rhs_row" -> InsertAfter(ls, "RHS", << Line(<<"RHS", "NOROW", "1">>) >>)
    [] fault = "undeclared_range_row" -> IF HasLine(ls, "RANGES") THEN InsertAfter(ls, "RANGES", << Line(<<"RNG", "NOROW", "1">>) >>)
                                         ELSE InsertBefore(ls, tail, << "RANGES", Line(<<"RNG", "NOROW", "1">>) >>)
    [] fault = "bad_rowtype" -> InsertAfter(ls, "ROWS", << Line(<<"Q", "BADROW">>) >>)
    [] fault = "bad_boundtype" -> IF HasLine(ls, "BOUNDS") THEN InsertAfter(ls, "BOUNDS", << Line(<<"XX", "BND", "ZZ", "1">>) >>)
                                  ELSE InsertBefore(ls, "ENDATA", << "BOUNDS", Line(<<"XX", "BND", "ZZ", "1">>) >>)
    [] fault = "bad_marker" -> InsertAfter(ls, "COLUMNS", << Line(<<"M9", "'MARKER'", "'INTFOO'">>) >>)
    [] fault = "bad_sense" -> InsertAfter(ls, "NAME " \o m.name, << "OBJSENSE MAXIMUM" >>)
    [] fault = "bad_number" -> InsertAfter(ls, "RHS", << Line(<<"RHS", m.objName, "1x0">>) >>)
    [] OTHER -> ls

\* ---------------------------------------------------------------- meaning
\* bound directives applied in file order to (kind, lo, hi, hasLower)
RECURSIVE ApplyBounds(_,_)
ApplyBounds(s, bs) ==
  IF bs = <<>> THEN s
  ELSE LET b == Head(bs)  v == IF b.val = <<>> THEN Zero ELSE b.val[1]
           t == CASE b.type = "UP" -> [s EXCEPT !.hi = v]
                  [] b.type = "LO" -> [s EXCEPT !.lo = v, !.hasLower = TRUE]
                  [] b.type = "FX" -> [s EXCEPT !.lo = v, !.hi = v, !.hasLower = TRUE]
                  [] b.type = "MI" -> [s EXCEPT !.lo = NInf, !.hasLower = TRUE]
                  [] b.type = "PL" -> [s EXCEPT !.hi = PInf]
                  [] b.type = "FR" -> [s EXCEPT !.lo = NInf, !.hi = PInf, !.hasLower = TRUE]
                  [] b.type = "BV" -> [s EXCEPT !.kind = "binary", !.lo = Zero, !.hi = One, !.hasLower = TRUE]
                  [] b.type = "LI" -> [s EXCEPT !.kind = "integer", !.lo = v, !.hasLower = TRUE]
                  [] b.type = "UI" -> [s EXCEPT !.kind = "integer", !.hi = v]
       IN ApplyBounds(t, Tail(bs))
ColDomain(c) ==
  LET s0 == [kind |-> IF c.int THEN "integer" ELSE "continuous", lo |-> Zero, hi |-> PInf, hasLower |-> FALSE]
      s1 == ApplyBounds(s0, c.bounds)
      s2 == IF ~s1.hasLower /\ IsFin(s1.hi) /\ RLess(s1.hi, Zero) THEN [s1 EXCEPT !.lo = NInf] ELSE s1
  IN [discrete |-> s2.kind \in {"integer", "binary"}, lo |-> s2.lo, hi |-> s2.hi]
\* the KIND of a loaded column: a discrete column is Integer, or Binary -- the latter only when its domain is {0,1}
\* (BV, or the SDK's convention of turning an integer column with bounds [0,1] into a binary one; an implementation
\* that keeps such a column Integer [0,1] says the same thing).  A column fixed to 1 is not binary.
KindOK(kind, d) == IF ~d.discrete THEN kind = "continuous"
                   ELSE kind = "integer" \/ (kind = "binary" /\ d.lo = Zero /\ d.hi = One)
\* MPS readers disagree about an upper bound of exactly 0 given without any lower bound: some open the lower bound as
\* for a negative one, others (CPLEX) keep the default 0.  The property speaks of a NEGATIVE upper bound only, so for
\* this one input both readings are accepted.
ColDomains(c) ==
  LET d == ColDomain(c)
      s1 == ApplyBounds([kind |-> "continuous", lo |-> Zero, hi |-> PInf, hasLower |-> FALSE], c.bounds) IN
  IF ~s1.hasLower /\ s1.hi = Zero THEN {d, [d EXCEPT !.lo = NInf]} ELSE {d}
\* linear expression of a row over column NAMES: function name -> Rat (zero entries kept out)
RowCoefs(m, i) == LET js == { j \in DOMAIN m.cols : \E k \in DOMAIN m.cols[j].coefs : m.cols[j].coefs[k][1] = i } IN
  [ n \in { m.cols[j].name : j \in js } |->
      LET j == CHOOSE j \in js : m.cols[j].name = n
          k == CHOOSE k \in DOMAIN m.cols[j].coefs : m.cols[j].coefs[k][1] = i IN m.cols[j].coefs[k][2] ]
ObjCoefs(m) == LET js == { j \in DOMAIN m.cols : m.cols[j].obj # <<>> } IN
  [ n \in { m.cols[j].name : j \in js } |-> m.cols[CHOOSE j \in js : m.cols[j].name = n].obj[1] ]
\* the constraints of one row:  sequence (1 or 2) of [eq, coefs (name -> Rat), constant]   meaning  sum coefs*x + constant (eq) 0
NegF(f) == [ n \in DOMAIN f |-> RNeg(f[n]) ]
RowCons(m, i) ==
  LET r == m.rows[i]  a == RowCoefs(m, i)  b == IF r.rhs = <<>> THEN Zero ELSE r.rhs[1] IN
  IF r.range = <<>> \/ r.range[1] = Zero THEN
     CASE r.type = "E" -> << [eq |-> "eq", coefs |-> a, constant |-> RNeg(b)] >>
       [] r.type = "L" -> << [eq |-> "le", coefs |-> a, constant |-> RNeg(b)] >>
       [] r.type = "G" -> << [eq |-> "le", coefs |-> NegF(a), constant |-> b] >>
  ELSE LET RR == r.range[1]  absR == RAbs(RR)
           lo == CASE r.type = "G" -> b [] r.type = "L" -> RSub(b, absR) [] r.type = "E" -> IF RSign(RR) > 0 THEN b ELSE RAdd(b, RR)
           hi == CASE r.type = "G" -> RAdd(b, absR) [] r.type = "L" -> b [] r.type = "E" -> IF RSign(RR) > 0 THEN RAdd(b, RR) ELSE b
       IN << [eq |-> "le", coefs |-> NegF(a), constant |-> lo], [eq |-> "le", coefs |-> a, constant |-> RNeg(hi)] >>
Meaning(m) ==
  [ sense |-> IF m.sense = "MAX" THEN "max" ELSE "min",
    objCoefs |-> ObjCoefs(m), objConstant |-> IF m.objRhs = <<>> THEN Zero ELSE RNeg(m.objRhs[1]),
    cons |-> [ i \in DOMAIN m.rows |-> RowCons(m, i) ],
    domains |-> [ n \in { m.cols[j].name : j \in DOMAIN m.cols } |-> ColDomain(m.cols[CHOOSE j \in DOMAIN m.cols : m.cols[j].name = n]) ] ]

\* ---------------------------------------------------------------- judging a loaded instance against the meaning
\* loaded variables by name (foreign names) or by id recovered from OMMX_VAR_<id>
LoadedName(v, byId) == IF byId THEN "OMMX_VAR_" \o ToString(v.id) ELSE (IF v.name = <<>> THEN "?" ELSE v.name[1])
NameToId(raw, byId) == [ n \in { LoadedName(raw.vars[i], byId) : i \in DOMAIN raw.vars } |->
                          raw.vars[CHOOSE i \in DOMAIN raw.vars : LoadedName(raw.vars[i], byId) = n].id ]
PolyOf(coefs, constant, n2i) ==
  Canon([ k \in 1..Cardinality(DOMAIN coefs) |-> LET n == SetToSeq(DOMAIN coefs)[k] IN [ids |-> <<n2i[n]>>, c |-> coefs[n]] ]
        \o << [ids |-> <<>>, c |-> constant] >>)
LoadedDomain(v) == [discrete |-> v.kind \in {"integer", "binary"},
                    lo |-> EffBound(v).lo, hi |-> EffBound(v).hi]
MpsLoadClauses(m, raw, byId) ==
  LET M == Meaning(m)  n2i == NameToId(raw, byId)  I == AbsI(raw)
      namesOK == DOMAIN M.domains = DOMAIN n2i /\ Len(raw.vars) = Cardinality(DOMAIN n2i)
      conv(c) == [eq |-> c.eq, f |-> PolyOf(c.coefs, c.constant, n2i)]
      wantPairs == UNION { { <<i, k>> : k \in DOMAIN M.cons[i] } : i \in DOMAIN M.cons }
      wantOf(p) == conv(M.cons[p[1]][p[2]])
      wantCons == { wantOf(p) : p \in wantPairs }
      gotOf(c) == [eq |-> I.cons[c].eq, f |-> I.cons[c].f]
      gotCons == { gotOf(c) : c \in DOMAIN I.cons }
      sameCounts == \A x \in wantCons : Cardinality({ p \in wantPairs : wantOf(p) = x }) = Cardinality({ c \in DOMAIN I.cons : gotOf(c) = x })
      conById(k) == { c \in DOMAIN I.cons : c = k }
      plainRows == { i \in DOMAIN m.rows : Len(M.cons[i]) = 1 }
      conByName(n) == { c \in DOMAIN I.cons : I.cons[c].meta.name = <<n>> } IN
  [ names |-> namesOK,
    sense |-> raw.sense = M.sense,
    objective |-> namesOK => I.obj = PolyOf(M.objCoefs, M.objConstant, n2i),
    constraints |-> namesOK => (gotCons = wantCons /\ sameCounts /\ DOMAIN I.removed = {} /\ I.active = DOMAIN I.cons),
    constraint_names |-> (namesOK /\ ~byId) => \A i \in plainRows : \E c \in conByName(m.rows[i].name) :
                            gotOf(c) = conv(M.cons[i][1]),
    domains |-> namesOK => \A n \in DOMAIN n2i : LoadedDomain(VarOf(raw, n2i[n])) \in ColDomains(m.cols[CHOOSE j \in DOMAIN m.cols : m.cols[j].name = n]),
    kinds |-> namesOK => \A n \in DOMAIN n2i : KindOK(VarOf(raw, n2i[n]).kind, LoadedDomain(VarOf(raw, n2i[n]))),
    unique_ids |-> UniqueVarIds(raw) /\ UniqueConIds(raw) ]
=============================================================================
