------------------------------- MODULE Judge -------------------------------
(* Trace validator: every recorded event of the real ommx API must be a step the specification allows.
   The recording (one JSON object per line) is read from the file named by the environment variable TRACE.
   For every rejected event a line  "BAD <index> <failed clause names>"  is printed; validation
   resynchronises on the next event (events carry their full pre/post state), so the rest of the trace is
   still checked.  A final  <<"DONE", number of events, number rejected>>  is printed when the whole trace
   was consumed; the POSTCONDITION guards against TLC stopping early. *)
EXTENDS JudgeMisc, TLC, Json, IOUtils
Rec == ndJsonDeserialize(IOEnv.TRACE)
Clauses(e) ==
  CASE e.ev = "eval_fn"        -> ClausesEval(e)
    [] e.ev = "partial_fn"     -> ClausesPartial(e)
    [] e.ev = "subst_fn"       -> ClausesSubst(e)
    [] e.ev = "arith"          -> ClausesArith(e)
    [] e.ev = "fn_info"        -> ClausesFnInfo(e)
    [] e.ev = "bound_op"       -> ClausesBound(e)
    [] e.ev = "eval_bound"     -> ClausesEvalBound(e)
    [] e.ev = "content_factor" -> ClausesContent(e)
    [] e.ev \in InstEvents     -> ClausesInst(e)
    [] e.ev \in MiscEvents     -> ClausesMisc(e)
    \* a composite vector (history) appears in a recording only when the code under test hung or crashed while performing it
    [] e.ev \in {"seq", "chain_encode", "store"} -> [ no_hang_no_panic |-> FALSE ]
    [] OTHER -> [ known_event |-> FALSE ]
Failed(e) == LET c == Clauses(e) IN { k \in DOMAIN c : ~c[k] }
RECURSIVE JoinNames(_)
JoinNames(S) == IF S = {} THEN "" ELSE LET x == CHOOSE y \in S : TRUE IN x \o (IF S = {x} THEN "" ELSE "," \o JoinNames(S \ {x}))
VARIABLES l, nbad
Init == l = 1 /\ nbad = 0
Next == /\ l <= Len(Rec)
        /\ LET fl == Failed(Rec[l]) IN
             nbad' = IF fl = {} THEN nbad
                     ELSE IF PrintT("BAD " \o ToString(l) \o " " \o JoinNames(fl)) THEN nbad + 1 ELSE nbad
        /\ l' = l + 1
Done == l = Len(Rec) + 1 => PrintT(<<"DONE", Len(Rec), nbad>>)
Consumed == TLCGet("stats").diameter = Len(Rec) + 1
=============================================================================
