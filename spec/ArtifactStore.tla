------------------------------- MODULE ArtifactStore -------------------------------
(* The artifact store as a state machine (growth of C20 beyond single archives): archive FILES and the LOCAL REGISTRY
   (one oci-dir per image name under the data directory), and the operations that move artifacts between them.

     state   S = [reg   : image name -> content,
                  files : path -> [name : 0/1-seq of image name, content : content]]
     content = sequence of layers <<kind, key>> in manifest order (the key stands for the stored message)

     build_archive(path, name?, layers)  Builder::new_archive / new_archive_unnamed ... build
     build_dir(name, layers)             Builder::new(image name) ... build           (into the registry)
     load(path)                          Artifact::from_oci_archive(path).load()      (archive -> registry)
     save(name, out)                     Artifact::from_oci_dir(image_dir(name)).save (registry -> archive)

   The code's policy, modelled as it is: nothing is ever overwritten.  Building onto an existing path or name and
   saving onto an existing file are errors; loading an archive whose name the registry already has succeeds and
   leaves the registry entry as it is (first writer wins); an unnamed archive cannot be loaded. *)
EXTENDS Naturals, Sequences, FiniteSets, TLC
Put(f, k, v) == [ x \in DOMAIN f \cup {k} |-> IF x = k THEN v ELSE f[x] ]
NoEntries == [ x \in {} |-> <<>> ]
EmptyStore == [reg |-> NoEntries, files |-> NoEntries]
Refuse(S) == [ok |-> FALSE, S |-> S]
Succeed(S) == [ok |-> TRUE, S |-> S]
StoreStep(S, op) ==
  CASE op.op = "build_archive" ->
         IF op.path \in DOMAIN S.files THEN Refuse(S)
         ELSE Succeed([S EXCEPT !.files = Put(@, op.path, [name |-> op.name, content |-> op.layers])])
    [] op.op = "build_dir" ->
         IF op.name \in DOMAIN S.reg THEN Refuse(S) ELSE Succeed([S EXCEPT !.reg = Put(@, op.name, op.layers)])
    [] op.op = "load" ->
         IF op.path \notin DOMAIN S.files \/ S.files[op.path].name = <<>> THEN Refuse(S)
         ELSE LET n == S.files[op.path].name[1] IN
              IF n \in DOMAIN S.reg THEN Succeed(S) ELSE Succeed([S EXCEPT !.reg = Put(@, n, S.files[op.path].content)])
    [] op.op = "save" ->
         IF op.name \notin DOMAIN S.reg \/ op.out \in DOMAIN S.files THEN Refuse(S)
         ELSE Succeed([S EXCEPT !.files = Put(@, op.out, [name |-> <<op.name>>, content |-> S.reg[op.name]])])
\* the entry an operation creates, if it creates one: <<"reg"|"files", key, content>>
Created(S, op) ==
  LET r == StoreStep(S, op) IN
  IF ~r.ok \/ r.S = S THEN <<>>
  ELSE CASE op.op = "build_archive" -> << <<"files", op.path, op.layers>> >>
         [] op.op = "build_dir" -> << <<"reg", op.name, op.layers>> >>
         [] op.op = "load" -> << <<"reg", S.files[op.path].name[1], S.files[op.path].content>> >>
         [] op.op = "save" -> << <<"files", op.out, S.reg[op.name]>> >>
=============================================================================
