------------------------------- MODULE Artifact -------------------------------
(* The artifact store (C20): an archive is a sequence of layers, each with a kind (media type), a payload and
   annotations.  Layers are content-addressed: the digest of a layer is a function of its BYTES only, so two
   layers with identical bytes (e.g. the default Instance and the empty State, both zero bytes) share a digest. *)
EXTENDS Naturals, Sequences, FiniteSets
LayerKinds == {"instance", "parametric", "solution", "sample_set"}
\* abstract reads; `bytes(l)` is the encoding of the layer's payload
Digests(layers, bytes(_)) == { bytes(layers[i]) : i \in DOMAIN layers }
\* reading digest d as kind k succeeds iff some layer has those bytes AND that kind, and returns such a layer's payload
GetAsOK(layers, bytes(_), k, d) == \E i \in DOMAIN layers : bytes(layers[i]) = d /\ layers[i].kind = k
LayersOfKind(layers, k) == SelectSeq(layers, LAMBDA l : l.kind = k)
=============================================================================
