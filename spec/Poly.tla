------------------------------- MODULE Poly -------------------------------
(* Polynomials over Rat as canonical coefficient maps: a function from monomials (nondecreasing
   sequences of variable ids, <<>> for the constant) to NON-ZERO Rat.  Equality of polynomials is
   TLA+ equality of these functions. *)
EXTENDS Rat, SequencesExt, FiniteSets, FiniteSetsExt, Functions
Sort(s) == SortSeq(s, LAMBDA x, y : x < y)
RSumSet(S, f(_)) == FoldSet(LAMBDA e, acc : RAdd(acc, f(e)), Zero, S)
\* from a SEQUENCE of raw terms [ids |-> Seq(id), c |-> Rat] (unsorted, repeated, zero allowed)
Canon(ts) ==
  LET ms == { Sort(ts[i].ids) : i \in DOMAIN ts }
      cf(m) == RSumSet({ i \in DOMAIN ts : Sort(ts[i].ids) = m }, LAMBDA i : ts[i].c)
      nz == { m \in ms : cf(m) # Zero }
  IN [ m \in nz |-> cf(m) ]
PZero == Canon(<<>>)
PConst(c) == Canon(<< [ids |-> <<>>, c |-> c] >>)
PVar(v) == Canon(<< [ids |-> <<v>>, c |-> One] >>)
Terms(p) == SetToSeq({ [ids |-> m, c |-> p[m]] : m \in DOMAIN p })      \* some enumeration of p's terms
PAdd(p, q) == Canon(Terms(p) \o Terms(q))
PScale(p, k) == Canon([ i \in DOMAIN Terms(p) |-> [ids |-> Terms(p)[i].ids, c |-> RMul(k, Terms(p)[i].c)] ])
PNeg(p) == PScale(p, R(-1))
PSub(p, q) == PAdd(p, PNeg(q))
PMul(p, q) ==
  LET pairs == (DOMAIN p) \X (DOMAIN q)
      ms == { Sort(pr[1] \o pr[2]) : pr \in pairs }
      cf(m) == RSumSet({ pr \in pairs : Sort(pr[1] \o pr[2]) = m }, LAMBDA pr : RMul(p[pr[1]], q[pr[2]]))
      nz == { m \in ms : cf(m) # Zero }
  IN [ m \in nz |-> cf(m) ]
Ids(p) == UNION { Range(m) : m \in DOMAIN p }
Degree(p) == IF DOMAIN p = {} THEN 0 ELSE Max({ Len(m) : m \in DOMAIN p })
RECURSIVE MonoVal(_,_)
MonoVal(m, st) == IF m = <<>> THEN One ELSE RMul(st[Head(m)], MonoVal(Tail(m), st))
\* st: function id -> Rat ;  "err" if an id of p is not in DOMAIN st
PEval(p, st) == IF ~(Ids(p) \subseteq DOMAIN st) THEN Err
                ELSE RSumSet(DOMAIN p, LAMBDA m : RMul(p[m], MonoVal(m, st)))
\* fix the variables of DOMAIN st, keep the others
PPartial(p, st) ==
  LET fixd(m) == SelectSeq(m, LAMBDA v : v \in DOMAIN st)
      rest(m) == SelectSeq(m, LAMBDA v : v \notin DOMAIN st)
  IN Canon([ i \in DOMAIN Terms(p) |->
        LET t == Terms(p)[i] IN [ids |-> rest(t.ids), c |-> RMul(t.c, MonoVal(fixd(t.ids), st))] ])
\* simultaneous substitution  v |-> r[v]  (r: function id -> Poly)
RECURSIVE MonoSubst(_,_)
MonoSubst(m, r) == IF m = <<>> THEN PConst(One)
                   ELSE PMul(IF Head(m) \in DOMAIN r THEN r[Head(m)] ELSE PVar(Head(m)), MonoSubst(Tail(m), r))
RECURSIVE PSumSeq(_)
PSumSeq(s) == IF s = <<>> THEN PZero ELSE PAdd(Head(s), PSumSeq(Tail(s)))
PSubst(p, r) == PSumSeq([ i \in DOMAIN Terms(p) |-> PScale(MonoSubst(Terms(p)[i].ids, r), Terms(p)[i].c) ])
\* x^2 = x on binaries: monomials become strictly increasing sequences
Dedup(m) == Sort(SetToSeq(Range(m)))
BinaryReduce(p) == Canon([ i \in DOMAIN Terms(p) |-> [ids |-> Dedup(Terms(p)[i].ids), c |-> Terms(p)[i].c] ])
=============================================================================
