------------------------------- MODULE JudgeArtifact -------------------------------
(* Clauses for artifact events (C20): one event = one archive built from a sequence of add_* operations and
   then read back completely (every layer as every kind, by digest, by media type, annotations). *)
EXTENDS Artifact, JudgeText
ArtifactEvents == {"artifact"}
KindSeq == <<"instance", "parametric", "solution", "sample_set">>
AsOf(layer, k) == CASE k = "instance" -> layer.as.instance [] k = "parametric" -> layer.as.parametric
                    [] k = "solution" -> layer.as.solution [] k = "sample_set" -> layer.as.sample_set
OptEq(acc, set) == acc = set
AnnOK(kind, ann, acc) ==
  IF kind \in {"instance", "parametric"}
  THEN /\ acc.title = ann.title /\ acc.license = ann.license /\ acc.dataset = ann.dataset /\ acc.authors = ann.authors
       /\ acc.variables = ann.variables /\ acc.constraints = ann.constraints /\ acc.created = ann.created
  ELSE /\ acc.start = ann.start /\ acc["end"] = ann["end"] /\ acc.instance = ann.instance /\ acc.solver = ann.solver
       /\ acc.parameters = ann.parameters
ClausesArtifact(e) ==
  IF ~NoPanic(e) THEN [ no_panic |-> FALSE ]
  ELSE IF "foreign" \in DOMAIN e.in /\ e.in.foreign THEN
    [ no_panic |-> TRUE, foreign_manifest_error |-> e.out.tag = "ok" /\ e.out.manifest = "err" ]
  ELSE IF e.out.tag # "ok" THEN [ no_panic |-> TRUE, built_and_opened |-> FALSE ]
  ELSE LET ins == e.in.layers  outs == e.out.layers  st == e.out.stored
           n == Len(ins)
           same == Len(outs) = n /\ Len(st) = n /\ \A i \in 1..n : st[i].tag = "ok"
           dig(i) == outs[i].digest IN
  IF ~same THEN [ no_panic |-> TRUE, layers_order_types |-> FALSE ]
  ELSE
  [ no_panic |-> TRUE,
    layers_order_types |-> \A i \in 1..n : outs[i].kind = ins[i].kind /\ outs[i].size = st[i].len,
    payload_equal |-> \A i \in 1..n : LET a == AsOf(outs[i], ins[i].kind) IN
                         a.tag = "ok" => a.msg = st[i].echo,
    by_digest |-> \A i \in 1..n : outs[i].raw.tag = "ok" /\ outs[i].raw.bytes = st[i].bytes
                                  /\ \A j \in 1..n : (st[i].bytes = st[j].bytes) <=> (dig(i) = dig(j)),
    typed_read_iff |-> \A i \in 1..n : \A x \in 1..4 :
                         (AsOf(outs[i], KindSeq[x]).tag = "ok") <=> (\E j \in 1..n : dig(j) = dig(i) /\ ins[j].kind = KindSeq[x]),
    unknown_digest_error |-> LET u == e.out.unknown_digest_errors IN u.instance /\ u.parametric /\ u.solution /\ u.sample_set /\ u.layer,
    descriptors_by_type |-> \A x \in 1..4 : LET k == KindSeq[x]
                                                 want == SelectSeq([ i \in 1..n |-> i ], LAMBDA i : ins[i].kind = k)
                                                 got == CASE k = "instance" -> e.out.descriptors.instance [] k = "parametric" -> e.out.descriptors.parametric
                                                          [] k = "solution" -> e.out.descriptors.solution [] k = "sample_set" -> e.out.descriptors.sample_set
                                             IN got = [ j \in DOMAIN want |-> dig(want[j]) ],
    \* a read by digest cannot tell apart two layers with the same bytes and kind: the accessors must return what
    \* was set on one of them; the descriptor of layer i (manifest order) carries layer i's own user-defined keys
    annotation_get_set |-> \A i \in 1..n : LET a == AsOf(outs[i], ins[i].kind) IN
                              /\ a.tag = "ok" => \E j \in 1..n : dig(j) = dig(i) /\ ins[j].kind = ins[i].kind /\ AnnOK(ins[i].kind, ins[j].ann, a.acc)
                              /\ \A k \in DOMAIN ins[i].ann.other : \E p \in DOMAIN outs[i].ann : outs[i].ann[p] = ins[i].ann.other[k] ]
=============================================================================
