------------------------------- MODULE JudgeArtifact -------------------------------
(* Clauses for artifact events (C20): one event = one archive built from a sequence of add_* operations and
   then read back completely (every layer as every kind, by digest, by media type, annotations). *)
EXTENDS Artifact, ArtifactStore, JudgeText
ArtifactEvents == {"artifact", "store_op"}
KindSeq == <<"instance", "parametric", "solution", "sample_set">>
AsOf(layer, k) == CASE k = "instance" -> layer.as.instance [] k = "parametric" -> layer.as.parametric
                    [] k = "solution" -> layer.as.solution [] k = "sample_set" -> layer.as.sample_set
OptEq(acc, set) == acc = set
AnnOK(kind, ann, acc) ==
  IF kind \in {"instance", "parametric"}
  THEN /\ acc.title = ann.title /\ acc.license = ann.license /\ acc.dataset = ann.dataset /\ acc.authors = ann.authors
       /\ acc.variables = ann.variables /\ acc.constraints = ann.constraints /\ acc.created = ann.created
  ELSE /\ acc.start = ann.start /\ acc["end"] = ann["end"] /\ acc.instance = ann.instance /\ acc.solver = ann.solver
       /\ acc.parameters = ann.parameters
ClausesArtifact(e) ==
  IF ~NoPanic(e) THEN [ no_panic |-> FALSE ]
  ELSE IF "foreign" \in DOMAIN e.in /\ e.in.foreign THEN
    [ no_panic |-> TRUE, foreign_manifest_error |-> e.out.tag = "ok" /\ e.out.manifest = "err" ]
  ELSE IF e.out.tag # "ok" THEN [ no_panic |-> TRUE, built_and_opened |-> FALSE ]
  ELSE LET ins == e.in.layers  outs == e.out.layers  st == e.out.stored
           n == Len(ins)
           same == Len(outs) = n /\ Len(st) = n /\ \A i \in 1..n : st[i].tag = "ok"
           dig(i) == outs[i].digest IN
  IF ~same THEN [ no_panic |-> TRUE, layers_order_types |-> FALSE ]
  ELSE
  [ no_panic |-> TRUE,
    layers_order_types |-> \A i \in 1..n : outs[i].kind = ins[i].kind /\ outs[i].size = st[i].len,
    payload_equal |-> \A i \in 1..n : LET a == AsOf(outs[i], ins[i].kind) IN
                         a.tag = "ok" => a.msg = st[i].echo,
    by_digest |-> \A i \in 1..n : outs[i].raw.tag = "ok" /\ outs[i].raw.bytes = st[i].bytes
                                  /\ \A j \in 1..n : (st[i].bytes = st[j].bytes) <=> (dig(i) = dig(j)),
    typed_read_iff |-> \A i \in 1..n : \A x \in 1..4 :
                         (AsOf(outs[i], KindSeq[x]).tag = "ok") <=> (\E j \in 1..n : dig(j) = dig(i) /\ ins[j].kind = KindSeq[x]),
    unknown_digest_error |-> LET u == e.out.unknown_digest_errors IN u.instance /\ u.parametric /\ u.solution /\ u.sample_set /\ u.layer,
    descriptors_by_type |-> \A x \in 1..4 : LET k == KindSeq[x]
                                                 want == SelectSeq([ i \in 1..n |-> i ], LAMBDA i : ins[i].kind = k)
                                                 got == CASE k = "instance" -> e.out.descriptors.instance [] k = "parametric" -> e.out.descriptors.parametric
                                                          [] k = "solution" -> e.out.descriptors.solution [] k = "sample_set" -> e.out.descriptors.sample_set
                                             IN got = [ j \in DOMAIN want |-> dig(want[j]) ],
    \* a read by digest cannot tell apart two layers with the same bytes and kind: the accessors must return what
    \* was set on one of them; the descriptor of layer i (manifest order) carries layer i's own user-defined keys
    annotation_get_set |-> \A i \in 1..n : LET a == AsOf(outs[i], ins[i].kind) IN
                              /\ a.tag = "ok" => \E j \in 1..n : dig(j) = dig(i) /\ ins[j].kind = ins[i].kind /\ AnnOK(ins[i].kind, ins[j].ann, a.acc)
                              /\ \A k \in DOMAIN ins[i].ann.other : \E p \in DOMAIN outs[i].ann : outs[i].ann[p] = ins[i].ann.other[k] ]
\* ---- the artifact store as a state machine: one event per operation with the observed store before and after --------
\* abstraction of an observation (only entries that could be read back count as present)
ObsReg(o) == LET ok == { i \in DOMAIN o.images : o.images[i].read.tag = "ok" } IN
             [ nm \in { o.images[i].name : i \in ok } |-> o.images[CHOOSE i \in ok : o.images[i].name = nm].read.content ]
ObsFiles(o) == LET ok == { i \in DOMAIN o.files : o.files[i].read.tag = "ok" } IN
               [ p \in { o.files[i].path : i \in ok } |->
                   LET r == o.files[CHOOSE i \in ok : o.files[i].path = p].read IN [name |-> r.name, content |-> r.content] ]
ObsStore(o) == [reg |-> ObsReg(o), files |-> ObsFiles(o)]
AllReadable(o) == (\A i \in DOMAIN o.images : o.images[i].read.tag = "ok") /\ (\A i \in DOMAIN o.files : o.files[i].read.tag = "ok")
StoreOpOf(i) == CASE i.op = "build_archive" -> [op |-> i.op, path |-> i.path, name |-> i.name, layers |-> i.layers]
                  [] i.op = "build_dir" -> [op |-> i.op, name |-> i.name, layers |-> i.layers]
                  [] i.op = "load" -> [op |-> i.op, path |-> i.path]
                  [] i.op = "save" -> [op |-> i.op, name |-> i.name, out |-> i.out]
ClausesStoreOp(e) ==
  IF ~NoPanic(e) THEN [ no_panic |-> FALSE ]
  ELSE LET pre == ObsStore(e.in.pre)  post == ObsStore(e.out.post)  op == StoreOpOf(e.in)
           r == StoreStep(pre, op)  cr == Created(pre, op) IN
  [ no_panic |-> TRUE,
    \* every history starts on an empty store (guards the harness: a registry shared between runs would make most steps no-ops)
    fresh_store |-> e.step = 1 => pre = EmptyStore,
    \* C20 at store level: everything the store lists can be read; what an operation stores is read back equal, from the
    \* medium it was stored in; no operation disturbs any other entry
    readable |-> AllReadable(e.out.post),
    stored_content |-> (Ok(e) /\ cr # <<>>) =>
         IF cr[1][1] = "reg" THEN cr[1][2] \in DOMAIN post.reg /\ post.reg[cr[1][2]] = cr[1][3]
         ELSE cr[1][2] \in DOMAIN post.files /\ post.files[cr[1][2]].content = cr[1][3],
    others_untouched |-> /\ \A k \in DOMAIN pre.reg : k \in DOMAIN post.reg /\ post.reg[k] = pre.reg[k]
                         /\ \A p \in DOMAIN pre.files : p \in DOMAIN post.files /\ post.files[p] = pre.files[p],
    \* the code's policy as modelled (extension clauses: existing targets, names, the exact post-state)
    result |-> Ok(e) <=> r.ok,
    step |-> post = r.S ]
=============================================================================
