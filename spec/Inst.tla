------------------------------- MODULE Inst -------------------------------
(* The abstract optimisation problem and the REFERENCE MEANING of every public API call on it.

   A raw instance (the ommx.v1.Instance / ParametricInstance message exactly as recorded) is abstracted by
   AbsI(raw) into a record
     sense, vars : id -> [kind, bound (0/1-seq), fixed (0/1-seq), meta], obj : Poly,
     cons : cid -> [f : Poly, eq, meta]  (active AND removed), active : SUBSET cid,
     removed : cid -> [reason, rparams], deps : id -> Poly, params, hints, parameters : pid -> meta
   Functions are canonical polynomials (Msg!Denote), so equality of abstract instances is equality of the
   mathematical content and is independent of representation, order of lists, merging of terms, ...
   Where the API's behaviour depends on SYNTACTIC occurrence of an id (missing-variable failures), the
   operators below look at the raw message. *)
EXTENDS JudgeFn

\* ---------------------------------------------------------------- raw accessors
VarIds(raw) == { raw.vars[i].id : i \in DOMAIN raw.vars }
VarOf(raw, v) == raw.vars[CHOOSE i \in DOMAIN raw.vars : raw.vars[i].id = v]
ActiveIds(raw) == { raw.constraints[i].id : i \in DOMAIN raw.constraints }
RemovedOK(raw) == \A i \in DOMAIN raw.removed : raw.removed[i].c # <<>>
RemovedIds(raw) == { raw.removed[i].c[1].id : i \in { j \in DOMAIN raw.removed : raw.removed[j].c # <<>> } }
ActiveCon(raw, c) == raw.constraints[CHOOSE i \in DOMAIN raw.constraints : raw.constraints[i].id = c]
RemovedEntry(raw, c) == raw.removed[CHOOSE i \in DOMAIN raw.removed : raw.removed[i].c # <<>> /\ raw.removed[i].c[1].id = c]
ConOf(raw, c) == IF c \in ActiveIds(raw) THEN ActiveCon(raw, c) ELSE RemovedEntry(raw, c).c[1]
FnOf(optf) == IF optf = <<>> THEN PZero ELSE Denote(optf[1])
FnIds(optf) == IF optf = <<>> THEN {} ELSE MsgIds(optf[1])
Meta(x) == [name |-> x.name, subs |-> x.subs, params |-> x.params, desc |-> x.desc]
UniqueVarIds(raw) == \A i, j \in DOMAIN raw.vars : raw.vars[i].id = raw.vars[j].id => i = j
UniqueConIds(raw) == /\ \A i, j \in DOMAIN raw.constraints : raw.constraints[i].id = raw.constraints[j].id => i = j
                     /\ \A i, j \in DOMAIN raw.removed : (raw.removed[i].c # <<>> /\ raw.removed[j].c # <<>> /\ raw.removed[i].c[1].id = raw.removed[j].c[1].id) => i = j
                     /\ ActiveIds(raw) \cap RemovedIds(raw) = {}
DepIds(raw) == PairIds(raw.deps)
DepFn(raw, d) == PairFun(raw.deps)[d]
\* ids occurring syntactically in objective / constraints / removed constraints
UsedRaw(raw) == FnIds(raw.objective) \cup UNION { FnIds(raw.constraints[i].f) : i \in DOMAIN raw.constraints }
                \cup UNION { FnIds(raw.removed[i].c[1].f) : i \in { j \in DOMAIN raw.removed : raw.removed[j].c # <<>> } }
AllFnIdsRaw(raw) == UsedRaw(raw) \cup UNION { MsgIds(DepFn(raw, d)) : d \in DepIds(raw) }

AbsI(raw) ==
  [ sense |-> raw.sense,
    vars  |-> [ v \in VarIds(raw) |-> LET x == VarOf(raw, v) IN [kind |-> x.kind, bound |-> x.bound, fixed |-> x.fixed, meta |-> Meta(x)] ],
    obj   |-> FnOf(raw.objective),
    cons  |-> [ c \in ActiveIds(raw) \cup RemovedIds(raw) |-> LET x == ConOf(raw, c) IN [f |-> FnOf(x.f), eq |-> x.eq, meta |-> Meta(x)] ],
    active |-> ActiveIds(raw),
    removed |-> [ c \in RemovedIds(raw) |-> [reason |-> RemovedEntry(raw, c).reason, rparams |-> RemovedEntry(raw, c).rparams] ],
    deps  |-> [ d \in DepIds(raw) |-> Denote(DepFn(raw, d)) ],
    params |-> raw.params, hints |-> raw.hints,
    parameters |-> [ p \in { raw.parameters[i].id : i \in DOMAIN raw.parameters } |->
                       Meta(raw.parameters[CHOOSE i \in DOMAIN raw.parameters : raw.parameters[i].id = p]) ] ]

EffBound(var) == IF var.bound # <<>> THEN var.bound[1]
                 ELSE IF var.kind = "binary" THEN [lo |-> Zero, hi |-> One] ELSE Unbounded
\* a valid instance in the sense of C05's quantifier
ValidInst(raw) == /\ UniqueVarIds(raw) /\ UniqueConIds(raw) /\ RemovedOK(raw)
                  /\ AllFnIdsRaw(raw) \subseteq VarIds(raw) /\ DepIds(raw) \subseteq VarIds(raw)
                  /\ \A i \in DOMAIN raw.vars : raw.vars[i].bound # <<>> => Valid(raw.vars[i].bound[1])
                  /\ \A c \in ActiveIds(raw) \cup RemovedIds(raw) : ConOf(raw, c).eq \in {"eq", "le"}

\* ---------------------------------------------------------------- evaluation (C05)
Feas(eq, val) == IF eq = "eq" THEN RLessE6(RAbs(val)) ELSE RLessE6(val)
FixedIds(I) == { v \in DOMAIN I.vars : I.vars[v].fixed # <<>> }
\* least fixed point of the dependencies over a state; readiness is syntactic (ids of the message)
RECURSIVE Lfp(_,_,_)
Lfp(raw, st, todo) ==
  IF todo = {} THEN st
  ELSE LET ready == { d \in todo : MsgIds(DepFn(raw, d)) \subseteq DOMAIN st } IN
       IF ready = {} THEN st
       ELSE Lfp(raw, [ v \in DOMAIN st \cup ready |-> IF v \in ready THEN PEval(Denote(DepFn(raw, v)), st) ELSE st[v] ], todo \ ready)
\* NOTE: one Lfp round evaluates all ready dependents on the SAME state; this equals any sequential schedule
\* provided the input state assigns no dependent variable (EvalDeps.tla proves schedule independence).
SolRejects(raw, st) ==
  LET I == AbsI(raw) IN
  \/ \E v \in DOMAIN st \cap DOMAIN I.vars : ~InTol7(st[v], EffBound(I.vars[v]))
  \/ ~(UsedRaw(raw) \subseteq DOMAIN st)
  \/ LET st1 == [ v \in DOMAIN st \cup FixedIds(I) |-> IF v \in FixedIds(I) THEN I.vars[v].fixed[1] ELSE st[v] ]
     IN ~(DepIds(raw) \subseteq DOMAIN Lfp(raw, st1, DepIds(raw)))
SolOf(raw, st) ==
  LET I == AbsI(raw)
      st1 == [ v \in DOMAIN st \cup FixedIds(I) |-> IF v \in FixedIds(I) THEN I.vars[v].fixed[1] ELSE st[v] ]
      st2 == Lfp(raw, st1, DepIds(raw))
      st3 == [ v \in DOMAIN st2 \cup DOMAIN I.vars |-> IF v \in DOMAIN st2 THEN st2[v] ELSE NearestToZero(EffBound(I.vars[v])) ]
      val(c) == PEval(I.cons[c].f, st)
  IN [ objective |-> PEval(I.obj, st),
       cons |-> { [id |-> c, eq |-> I.cons[c].eq, value |-> val(c), meta |-> I.cons[c].meta,
                   removed_reason |-> IF c \in I.active THEN <<>> ELSE << I.removed[c].reason >>,
                   rparams |-> IF c \in I.active THEN <<>> ELSE I.removed[c].rparams] : c \in DOMAIN I.cons },
       relaxed  |-> \A c \in I.active : Feas(I.cons[c].eq, val(c)),
       feasible |-> \A c \in DOMAIN I.cons : Feas(I.cons[c].eq, val(c)),
       state |-> st3 ]
\* what a recorded ommx.v1.Solution says, in the same shape
SolSeen(sol) ==
  [ objective |-> sol.objective,
    cons |-> { LET c == sol.evaluated[i] IN [id |-> c.id, eq |-> c.eq, value |-> c.value, meta |-> Meta(c),
                 removed_reason |-> c.removed_reason, rparams |-> c.rparams] : i \in DOMAIN sol.evaluated },
    ncons |-> Len(sol.evaluated),
    relaxed |-> sol.feasible_relaxed, feasible |-> sol.feasible,
    state |-> IF sol.state = <<>> THEN <<>> ELSE PairFun(sol.state[1]) ]

\* ---------------------------------------------------------------- transformations
MapFns(I, F(_)) == [I EXCEPT !.obj = F(@), !.cons = [c \in DOMAIN @ |-> [@[c] EXCEPT !.f = F(@)]],
                             !.deps = [d \in DOMAIN @ |-> F(@[d])]]
PartialEvaluate(I, s) ==
  LET J == MapFns(I, LAMBDA p : PPartial(p, s)) IN
  [J EXCEPT !.vars = [v \in DOMAIN @ |-> IF v \in DOMAIN s THEN [@[v] EXCEPT !.fixed = <<s[v]>>] ELSE @[v]]]
Substitute(I, r) ==
  LET J == MapFns(I, LAMBDA p : PSubst(p, r)) IN
  [J EXCEPT !.deps = [d \in DOMAIN @ \cup DOMAIN r |-> IF d \in DOMAIN r THEN r[d] ELSE @[d]]]
Relax(I, c, reason, rp) == [I EXCEPT !.active = @ \ {c},
                                     !.removed = [x \in DOMAIN @ \cup {c} |-> IF x = c THEN [reason |-> reason, rparams |-> rp] ELSE @[x]]]
Restore(I, c) == [I EXCEPT !.active = @ \cup {c}, !.removed = [x \in DOMAIN @ \ {c} |-> @[x]]]
AsMin(I) == IF I.sense = "max" THEN [I EXCEPT !.sense = "min", !.obj = PNeg(@)] ELSE I
PSumSet(S, F(_)) == FoldSet(LAMBDA c, acc : PAdd(acc, F(c)), PZero, S)
Sq(p) == PMul(p, p)

\* constructive reference of the penalty methods (fresh parameter ids chosen by `pid`) and of instantiation
Penalty(I, pid) == [I EXCEPT !.obj = PAdd(@, PSumSet(I.active, LAMBDA c : PMul(PVar(pid[c]), Sq(I.cons[c].f)))),
                             !.active = {},
                             !.removed = [c \in DOMAIN I.cons |-> IF c \in DOMAIN @ THEN @[c] ELSE [reason |-> "penalty_method", rparams |-> <<>>]],
                             !.parameters = [p \in { pid[c] : c \in I.active } |-> [name |-> <<"penalty_weight">>, subs |-> << CHOOSE c \in I.active : pid[c] = p >>, params |-> <<>>, desc |-> <<>>]]]
UniformPenalty(I, p) == [I EXCEPT !.obj = PAdd(@, PMul(PVar(p), PSumSet(I.active, LAMBDA c : Sq(I.cons[c].f)))),
                                  !.active = {},
                                  !.removed = [c \in DOMAIN I.cons |-> IF c \in DOMAIN @ THEN @[c] ELSE [reason |-> "uniform_penalty_method", rparams |-> <<>>]],
                                  !.parameters = [q \in {p} |-> [name |-> <<"uniform_penalty_weight">>, subs |-> <<>>, params |-> <<>>, desc |-> <<>>]]]
WithParameters(P, pv) == [P EXCEPT !.obj = PPartial(@, pv),
                                   !.cons = [c \in DOMAIN @ |-> IF c \in P.active THEN [@[c] EXCEPT !.f = PPartial(@, pv)] ELSE @[c]],
                                   !.parameters = [q \in {} |-> <<>>]]
\* a raw message for an abstract instance (functions as "polynomial" messages); AbsI(RawOf(I)) = I
PolyMsg(p) == [kind |-> "polynomial", terms |-> [ i \in DOMAIN Terms(p) |-> [ids |-> Terms(p)[i].ids, c |-> Terms(p)[i].c] ]]
SortedIdSeq(S) == SortSeq(SetToSeq(S), LAMBDA a, b : a < b)
RawCon(I, c) == [id |-> c, eq |-> I.cons[c].eq, f |-> << PolyMsg(I.cons[c].f) >>, name |-> I.cons[c].meta.name, subs |-> I.cons[c].meta.subs,
                 params |-> I.cons[c].meta.params, desc |-> I.cons[c].meta.desc]
RawOf(I) ==
  [ sense |-> I.sense,
    vars |-> [ k \in DOMAIN SortedIdSeq(DOMAIN I.vars) |-> LET v == SortedIdSeq(DOMAIN I.vars)[k]  x == I.vars[v] IN
                 [id |-> v, kind |-> x.kind, bound |-> x.bound, fixed |-> x.fixed, name |-> x.meta.name, subs |-> x.meta.subs, params |-> x.meta.params, desc |-> x.meta.desc] ],
    objective |-> << PolyMsg(I.obj) >>,
    constraints |-> [ k \in DOMAIN SortedIdSeq(I.active) |-> RawCon(I, SortedIdSeq(I.active)[k]) ],
    removed |-> [ k \in DOMAIN SortedIdSeq(DOMAIN I.removed) |-> LET c == SortedIdSeq(DOMAIN I.removed)[k] IN
                   [c |-> << RawCon(I, c) >>, reason |-> I.removed[c].reason, rparams |-> I.removed[c].rparams] ],
    deps |-> [ k \in DOMAIN SortedIdSeq(DOMAIN I.deps) |-> << SortedIdSeq(DOMAIN I.deps)[k], PolyMsg(I.deps[SortedIdSeq(DOMAIN I.deps)[k]]) >> ],
    params |-> I.params, hints |-> I.hints, description |-> <<>>,
    parameters |-> [ k \in DOMAIN SortedIdSeq(DOMAIN I.parameters) |-> LET p == SortedIdSeq(DOMAIN I.parameters)[k]  x == I.parameters[p] IN
                      [id |-> p, name |-> x.name, subs |-> x.subs, params |-> x.params, desc |-> x.desc] ] ]

\* natural interval extension of a polynomial over a box  bnd : function id -> interval  (the analysis the slack
\* conversions describe: per monomial, powers of the variables' bounds multiplied, scaled, summed)
RECURSIVE MonoHull(_,_)
MonoHull(m, bnd) ==
  IF m = <<>> THEN Point(One)
  ELSE LET v == Head(m)  k == Cardinality({ i \in DOMAIN m : m[i] = v })
           rest == SelectSeq(m, LAMBDA x : x # v)
       IN HullMul(HullPow(bnd[v], k), MonoHull(rest, bnd))
NatHull(p, bnd) ==
  FoldSet(LAMBDA m, acc : HullAdd(acc, IF m = <<>> THEN Point(p[m]) ELSE HullScale(MonoHull(m, bnd), p[m])),
          Point(Zero), DOMAIN p)
\* the same analysis run on a message term by term as listed (repeated monomials are not merged first): the loosest
\* result an implementation that iterates over the message's own terms can obtain
RawHull(f, a, bnd) ==
  LET ts == RawTerms(f) IN
  FoldSet(LAMBDA i, acc : HullAdd(acc, IF ts[i].ids = <<>> THEN Point(RMul(a, ts[i].c)) ELSE HullScale(MonoHull(ts[i].ids, bnd), RMul(a, ts[i].c))),
          Point(Zero), DOMAIN ts)

\* ---------------------------------------------------------------- constructive references of the id-creating calls
\* (the judge's clauses for log_encode and the slack conversions are relational; these operators are ONE implementation
\*  satisfying them, used by the state machine MC_InstSM to explore histories in which those calls are interleaved
\*  with the other transformations)
MaxVarId(I) == CHOOSE m \in DOMAIN I.vars : \A v \in DOMAIN I.vars : v <= m
RECURSIVE Pow2(_)
Pow2(k) == IF k = 0 THEN 1 ELSE 2 * Pow2(k - 1)
RECURSIVE Bits(_,_)
Bits(width, k) == IF Pow2(k) >= width + 1 THEN k ELSE Bits(width, k + 1)        \* ceil(log2(width+1))
RefCoefs(width) == LET nb == Bits(width, 0) IN [ i \in 1..nb |-> IF i = nb THEN width - Pow2(i - 1) + 1 ELSE Pow2(i - 1) ]
NewVar(kind, b, name, subs) == [kind |-> kind, bound |-> << b >>, fixed |-> <<>>, meta |-> [name |-> <<name>>, subs |-> subs, params |-> <<>>, desc |-> <<>>]]
CanEncode(I, v) == /\ v \in DOMAIN I.vars /\ I.vars[v].kind = "integer" /\ I.vars[v].bound # <<>>
                   /\ IsFin(I.vars[v].bound[1].lo) /\ IsFin(I.vars[v].bound[1].hi)
                   /\ RCeil(I.vars[v].bound[1].lo) <= RFloor(I.vars[v].bound[1].hi)
\* [inst |-> I with the bit variables registered, enc |-> the linear expression, bits |-> their ids]
LogEncodeRef(I, v) ==
  LET b == I.vars[v].bound[1]  lo == RCeil(b.lo)  w == RFloor(b.hi) - lo
      cs == IF w = 0 THEN <<>> ELSE RefCoefs(w)  base == MaxVarId(I) + 1
      ids == { base + i - 1 : i \in DOMAIN cs } IN
  [ inst |-> [I EXCEPT !.vars = [ x \in DOMAIN @ \cup ids |-> IF x \in ids THEN NewVar("binary", [lo |-> Zero, hi |-> One], "ommx.log_encode", <<v, x - base>>) ELSE @[x] ]],
    enc  |-> Canon(<< [ids |-> <<>>, c |-> R(lo)] >> \o [ i \in DOMAIN cs |-> [ids |-> << base + i - 1 >>, c |-> R(cs[i])] ]),
    bits |-> ids ]
\* f(x) <= 0  ~>  f(x) + s/a = 0,  s integer in [0, -L],  a the content factor, [L, U] the integer hull of a*f over the box
SlackBox(I) == [ x \in DOMAIN I.vars |-> EffBound(I.vars[x]) ]
CanSlack(I, c) == /\ c \in I.active /\ I.cons[c].eq = "le"
                  /\ \A x \in Ids(I.cons[c].f) : I.vars[x].kind \in {"integer", "binary"}
SlackHull(I, c) == LET f == I.cons[c].f  a == ContentFactor({ f[m] : m \in DOMAIN f }) IN
                   [a |-> a, h |-> NatHull(PScale(f, a), SlackBox(I))]
\* outcome: "infeasible" | "relaxed" (always holds: moved to removed) | "converted"
SlackConvertRef(I, c) ==
  LET sh == SlackHull(I, c)  s == MaxVarId(I) + 1 IN
  IF IsFin(sh.h.lo) /\ RCeil(sh.h.lo) > 0 THEN [tag |-> "infeasible", inst |-> I]
  ELSE IF IsFin(sh.h.hi) /\ RFloor(sh.h.hi) <= 0 THEN [tag |-> "relaxed", inst |-> Relax(I, c, "convert_inequality_to_equality_with_integer_slack", <<>>)]
  ELSE IF ~IsFin(sh.h.lo) THEN [tag |-> "unbounded", inst |-> I]
  ELSE [tag |-> "converted", slack |-> s,
        inst |-> [I EXCEPT !.vars = [ x \in DOMAIN @ \cup {s} |-> IF x = s THEN NewVar("integer", [lo |-> Zero, hi |-> R(-RCeil(sh.h.lo))], "ommx.slack", <<c>>) ELSE @[x] ],
                           !.cons[c] = [@ EXCEPT !.f = PAdd(@, PScale(PVar(s), RDiv(One, sh.a))), !.eq = "eq"]]]

\* value set of a linear expression with integer coefficients over all 0/1 assignments of its variables
RECURSIVE SubsetSums(_,_)
SubsetSums(cs, acc) == IF cs = <<>> THEN acc ELSE SubsetSums(Tail(cs), acc \cup { s + Head(cs) : s \in acc })
\* the complete-sequence criterion (sufficient and necessary for positive integer coefficients to cover 0..sum)
RECURSIVE PrefixOK(_,_)
PrefixOK(sorted, sum) == sorted = <<>> \/ (Head(sorted) <= sum + 1 /\ PrefixOK(Tail(sorted), sum + Head(sorted)))
RECURSIVE SeqSum(_)
SeqSum(s) == IF s = <<>> THEN 0 ELSE Head(s) + SeqSum(Tail(s))
CoversByCriterion(cs, w) == /\ \A i \in DOMAIN cs : cs[i] >= 1
                            /\ SeqSum(cs) = w
                            /\ PrefixOK(SortSeq(cs, LAMBDA a, b : a < b), 0)
=============================================================================
