------------------------------- MODULE Validate -------------------------------
(* Well-formedness of raw instances (C08): the rules of Instance::validate, ParametricInstance::validate
   and of the conversion to the validated typed instance, each with the path to the offending field. *)
EXTENDS Extra
VarIdSeq(raw) == [ i \in DOMAIN raw.vars |-> raw.vars[i].id ]
ConIdSeq(raw) == [ i \in DOMAIN raw.constraints |-> raw.constraints[i].id ]
RemIdSeq(raw) == LET ks == SelectSeq(raw.removed, LAMBDA x : x.c # <<>>) IN [ i \in DOMAIN ks |-> ks[i].c[1].id ]
SeqDup(s) == \E i, j \in DOMAIN s : i # j /\ s[i] = s[j]
ValidateOK(raw) == /\ ~SeqDup(VarIdSeq(raw))
                   /\ ~SeqDup(ConIdSeq(raw) \o RemIdSeq(raw))
                   /\ UsedRaw(raw) \subseteq VarIds(raw)
ParamIdSeq(raw) == [ i \in DOMAIN raw.parameters |-> raw.parameters[i].id ]
PUsedRaw(raw) == FnIds(raw.objective) \cup UNION { FnIds(raw.constraints[i].f) : i \in DOMAIN raw.constraints }
PValidateOK(raw) == /\ ~SeqDup(VarIdSeq(raw) \o ParamIdSeq(raw))
                    /\ PUsedRaw(raw) \subseteq (VarIds(raw) \cup Range(ParamIdSeq(raw)))
                    /\ ~SeqDup(ConIdSeq(raw) \o RemIdSeq(raw))

\* ---- typed conversion: the set of violated requirements, each as <<rule, path, detail>> -------------------
\* path: sequence of <<message, field>> from ommx.v1.Instance down to the offending field; a missing field is
\* reported at the message that lacks it and carries <<message, field>> as detail
MI == "ommx.v1.Instance"  MD == "ommx.v1.DecisionVariable"  MC == "ommx.v1.Constraint"  MR == "ommx.v1.RemovedConstraint"
MH == "ommx.v1.ConstraintHints"  MO == "ommx.v1.OneHot"  MS == "ommx.v1.Sos1"
Kinds == {"binary", "integer", "continuous", "semi_integer", "semi_continuous"}
FnUnset(optf) == optf # <<>> /\ optf[1].kind = "none"
ConFaults(c, prefix) ==
       (IF c.eq \in {"eq", "le"} THEN {} ELSE { <<"UnspecifiedEnum", prefix \o << <<MC, "equality">> >>, <<"ommx.v1.Equality">> >> })
  \cup (IF c.f = <<>> THEN { <<"MissingField", prefix, <<MC, "function">> >> } ELSE {})
  \cup (IF FnUnset(c.f) THEN { <<"UnsupportedV1Function", prefix \o << <<MC, "function">> >>, <<>> >> } ELSE {})
HintsOf(raw) == IF raw.hints = <<>> THEN [onehot |-> <<>>, sos1 |-> <<>>] ELSE raw.hints[1]
TypedFaults(raw) ==
  LET vids == VarIds(raw)  acids == ActiveIds(raw)  H == HintsOf(raw)
      P(f) == << <<MI, f>> >>
      undefUsed(optf) == FnIds(optf) \ vids # {}
  IN
     (IF raw.sense \in {"min", "max"} THEN {} ELSE { <<"UnspecifiedEnum", P("sense"), <<"ommx.v1.instance.Sense">> >> })
  \cup UNION { (IF raw.vars[i].kind \in Kinds THEN {} ELSE { <<"UnspecifiedEnum", P("decision_variables") \o << <<MD, "kind">> >>, <<"ommx.v1.decision_variable.Kind">> >> })
               \cup (IF raw.vars[i].bound # <<>> /\ ~Valid(raw.vars[i].bound[1]) THEN { <<"InvalidBound", P("decision_variables") \o << <<MD, "bound">> >>, <<>> >> } ELSE {})
               : i \in DOMAIN raw.vars }
  \cup (IF SeqDup(VarIdSeq(raw)) THEN { <<"DuplicatedVariableID", P("decision_variables"), <<>> >> } ELSE {})
  \cup (IF raw.objective = <<>> THEN { <<"MissingField", <<>>, <<MI, "objective">> >> } ELSE {})
  \cup (IF FnUnset(raw.objective) THEN { <<"UnsupportedV1Function", P("objective"), <<>> >> } ELSE {})
  \cup (IF undefUsed(raw.objective) THEN { <<"UndefinedVariableID", P("objective"), <<>> >> } ELSE {})
  \cup UNION { ConFaults(raw.constraints[i], P("constraints")) : i \in DOMAIN raw.constraints }
  \cup (IF \E i \in DOMAIN raw.constraints : undefUsed(raw.constraints[i].f) THEN { <<"UndefinedVariableID", P("constraints"), <<>> >> } ELSE {})
  \cup (IF SeqDup(ConIdSeq(raw)) THEN { <<"DuplicatedConstraintID", P("constraints"), <<>> >> } ELSE {})
  \cup UNION { IF raw.removed[i].c = <<>> THEN { <<"MissingField", P("removed_constraints"), <<MR, "constraint">> >> }
               ELSE ConFaults(raw.removed[i].c[1], P("removed_constraints") \o << <<MR, "constraint">> >>) : i \in DOMAIN raw.removed }
  \cup (IF \E i \in DOMAIN raw.removed : raw.removed[i].c # <<>> /\ undefUsed(raw.removed[i].c[1].f) THEN { <<"UndefinedVariableID", P("removed_constraints"), <<>> >> } ELSE {})
  \cup (IF SeqDup(RemIdSeq(raw)) \/ Range(RemIdSeq(raw)) \cap acids # {} THEN { <<"DuplicatedConstraintID", P("removed_constraints"), <<>> >> } ELSE {})
  \cup (IF DepIds(raw) \ vids # {} THEN { <<"UndefinedVariableID", P("decision_variable_dependency"), <<>> >> } ELSE {})
  \cup (IF \E d \in DepIds(raw) : DepFn(raw, d).kind = "none" THEN { <<"UnsupportedV1Function", P("decision_variable_dependency"), <<>> >> } ELSE {})
  \cup (IF \E d \in DepIds(raw) : MsgIds(DepFn(raw, d)) \ vids # {} THEN { <<"UndefinedVariableID", P("decision_variable_dependency"), <<>> >> } ELSE {})
  \cup UNION { LET o == H.onehot[i]  pp == P("constraint_hints") \o << <<MH, "one_hot_constraints">> >> IN
               (IF o.cid \in acids \cup RemovedIds(raw) THEN {} ELSE { <<"UndefinedConstraintID", pp \o << <<MO, "constraint_id">> >>, <<>> >> })
               \cup (IF Range(o.vars) \subseteq vids THEN {} ELSE { <<"UndefinedVariableID", pp \o << <<MO, "decision_variables">> >>, <<>> >> })
               \cup (IF SeqDup(o.vars) THEN { <<"NonUniqueVariableID", pp \o << <<MO, "decision_variables">> >>, <<>> >> } ELSE {})
               : i \in DOMAIN H.onehot }
  \cup UNION { LET o == H.sos1[i]  pp == P("constraint_hints") \o << <<MH, "sos1_constraints">> >> IN
               (IF o.bin \in acids \cup RemovedIds(raw) THEN {} ELSE { <<"UndefinedConstraintID", pp \o << <<MS, "binary_constraint_id">> >>, <<>> >> })
               \cup (IF Range(o.bigm) \subseteq acids \cup RemovedIds(raw) THEN {} ELSE { <<"UndefinedConstraintID", pp \o << <<MS, "big_m_constraint_ids">> >>, <<>> >> })
               \cup (IF SeqDup(o.bigm) THEN { <<"NonUniqueConstraintID", pp \o << <<MS, "big_m_constraint_ids">> >>, <<>> >> } ELSE {})
               \cup (IF Range(o.vars) \subseteq vids THEN {} ELSE { <<"UndefinedVariableID", pp \o << <<MS, "decision_variables">> >>, <<>> >> })
               \cup (IF SeqDup(o.vars) THEN { <<"NonUniqueVariableID", pp \o << <<MS, "decision_variables">> >>, <<>> >> } ELSE {})
               : i \in DOMAIN H.sos1 }
\* a hint that names a constraint which is currently in the removed list: whether the typed instance must accept
\* it is not settled by the property (open reading, DESIGN.md C08); such instances are don't-care for acceptance
HintOnRemoved(raw) == LET H == HintsOf(raw) IN
  \/ \E i \in DOMAIN H.onehot : H.onehot[i].cid \in RemovedIds(raw)
  \/ \E i \in DOMAIN H.sos1 : H.sos1[i].bin \in RemovedIds(raw) \/ Range(H.sos1[i].bigm) \cap RemovedIds(raw) # {}

\* ---- content of the typed view ---------------------------------------------------------------------
TypedVarWant(x) == [id |-> x.id, kind |-> x.kind, bound |-> EffBound(x), fixed |-> x.fixed, name |-> x.name, subs |-> x.subs, params |-> x.params, desc |-> x.desc]
TypedConSeen(c) == [id |-> c.id, eq |-> c.eq, f |-> Denote(c.f), meta |-> Meta(c)]
TypedConWant(c) == [id |-> c.id, eq |-> c.eq, f |-> FnOf(c.f), meta |-> Meta(c)]
TypedContentOK(raw, view) ==
  LET H == HintsOf(raw) IN
  /\ view.sense = raw.sense
  /\ Denote(view.objective) = FnOf(raw.objective)
  /\ { view.vars[i] : i \in DOMAIN view.vars } = { TypedVarWant(raw.vars[i]) : i \in DOMAIN raw.vars } /\ Len(view.vars) = Len(raw.vars)
  /\ { TypedConSeen(view.constraints[i]) : i \in DOMAIN view.constraints } = { TypedConWant(raw.constraints[i]) : i \in DOMAIN raw.constraints }
  /\ Len(view.constraints) = Len(raw.constraints)
  /\ { [c |-> TypedConSeen(view.removed[i].c), reason |-> view.removed[i].reason, rparams |-> view.removed[i].rparams] : i \in DOMAIN view.removed }
       = { [c |-> TypedConWant(raw.removed[i].c[1]), reason |-> raw.removed[i].reason, rparams |-> raw.removed[i].rparams] : i \in DOMAIN raw.removed }
  /\ Len(view.removed) = Len(raw.removed)
  /\ PairIds(view.deps) = DepIds(raw) /\ \A d \in DepIds(raw) : Denote(PairFun(view.deps)[d]) = Denote(DepFn(raw, d))
  /\ view.params = raw.params
  /\ { [cid |-> view.onehot[i].cid, vars |-> Range(view.onehot[i].vars)] : i \in DOMAIN view.onehot }
       = { [cid |-> H.onehot[i].cid, vars |-> Range(H.onehot[i].vars)] : i \in DOMAIN H.onehot }
  /\ { [bin |-> view.sos1[i].bin, bigm |-> Range(view.sos1[i].bigm), vars |-> Range(view.sos1[i].vars)] : i \in DOMAIN view.sos1 }
       = { [bin |-> H.sos1[i].bin, bigm |-> Range(H.sos1[i].bigm), vars |-> Range(H.sos1[i].vars)] : i \in DOMAIN H.sos1 }
  /\ view.keys_ok
=============================================================================
