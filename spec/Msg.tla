------------------------------- MODULE Msg -------------------------------
(* Shapes of ommx.v1.Function on the wire and their denotation.
   [kind |-> "none"] | [kind |-> "constant", c] | [kind |-> "linear", terms : Seq([id, c]), constant]
   | [kind |-> "quadratic", rows, columns, values : Seq, linear : <<>> or <<linear record>> (optionals are 0/1-element sequences)]
   | [kind |-> "polynomial", terms : Seq([ids : Seq(id), c])] *)
EXTENDS Poly
LinTerms(l) == [ i \in DOMAIN l.terms |-> [ids |-> <<l.terms[i].id>>, c |-> l.terms[i].c] ] \o << [ids |-> <<>>, c |-> l.constant] >>
QuadTerms(q) == [ i \in DOMAIN q.values |-> [ids |-> <<q.rows[i], q.columns[i]>>, c |-> q.values[i]] ]
               \o (IF q.linear = <<>> THEN <<>> ELSE LinTerms(q.linear[1]))
RawTerms(f) == CASE f.kind = "none" -> <<>>
                 [] f.kind = "constant" -> << [ids |-> <<>>, c |-> f.c] >>
                 [] f.kind = "linear" -> LinTerms(f)
                 [] f.kind = "quadratic" -> QuadTerms(f)
                 [] f.kind = "polynomial" -> f.terms
Denote(f) == Canon(RawTerms(f))
MsgIds(f) == UNION { Range(RawTerms(f)[i].ids) : i \in DOMAIN RawTerms(f) }
WellShaped(f) == f.kind = "quadratic" => Len(f.rows) = Len(f.columns) /\ Len(f.rows) = Len(f.values)
\* term-by-term evaluation as the schema comments describe it (no canonicalisation)
DirectEval(f, st) ==
  IF ~(MsgIds(f) \subseteq DOMAIN st) THEN Err
  ELSE RSumSeq([ i \in DOMAIN RawTerms(f) |-> RMul(RawTerms(f)[i].c, MonoVal(RawTerms(f)[i].ids, st)) ])
=============================================================================
