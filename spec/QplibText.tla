------------------------------- MODULE QplibText -------------------------------
(* The QPLIB text format (Furini et al. 2019) as a declarative pair Render / Meaning.
   Model:  [ name, o \in {"L","D","C","Q"}, v \in {"C","B","M","I","G"}, c \in {"N","B","L","D","C","Q"},
             sense \in {"minimize","maximize"}, n, m,
             q0 : Seq(<<i, j, val>>) (i >= j, lower triangle), b0def, b0 : Seq(<<i, val>>), q0const,
             qi : Seq(<<con, i, j, val>>), bi : Seq(<<con, j, val>>), inf,
             cldef, cl : Seq(<<i, val>>), cudef, cu, ldef, l, udef, u, tdef \in 0..2, t : Seq(<<i, 0..2>>),
             vnames : Seq(<<i, name>>), cnames : Seq(<<i, name>>) ]
   Objective: 1/2 x'Q0x + b0'x + q0;  constraint k:  cl_k <= 1/2 x'Qk x + bk'x <= cu_k. *)
EXTENDS MpsText
QLine(ws) == LET RECURSIVE J(_)
                 J(s) == IF s = <<>> THEN "" ELSE IF Len(s) = 1 THEN s[1] ELSE s[1] \o " " \o J(Tail(s)) IN J(ws)
HasCons(q) == q.c \notin {"N", "B"}
Sec(def, entries, F(_)) == << Dec(def), ToString(Len(entries)) >> \o [ k \in DOMAIN entries |-> F(entries[k]) ]
IV(e) == QLine(<<ToString(e[1]), Dec(e[2])>>)
QRender(q, lay) ==
  LET cm(s) == IF lay.comments THEN << s >> ELSE <<>>
      tr(s) == IF lay.trailing THEN s \o " # trailing text" ELSE s
  IN << q.name >> \o cm("! a comment") \o << tr(q.o \o q.v \o q.c), q.sense, tr(ToString(q.n)) >>
     \o (IF HasCons(q) THEN << ToString(q.m) >> ELSE <<>>)
     \o (IF q.o # "L" THEN << ToString(Len(q.q0)) >> \o [ k \in DOMAIN q.q0 |-> tr(QLine(<<ToString(q.q0[k][1]), ToString(q.q0[k][2]), Dec(q.q0[k][3])>>)) ] ELSE <<>>)
     \o << Dec(q.b0def), ToString(Len(q.b0)) >> \o [ k \in DOMAIN q.b0 |-> IV(q.b0[k]) ] \o cm("% another comment")
     \o << Dec(q.q0const) >>
     \o (IF q.c \in {"D", "C", "Q"} THEN << ToString(Len(q.qi)) >> \o [ k \in DOMAIN q.qi |-> QLine(<<ToString(q.qi[k][1]), ToString(q.qi[k][2]), ToString(q.qi[k][3]), Dec(q.qi[k][4])>>) ] ELSE <<>>)
     \o (IF HasCons(q) THEN << ToString(Len(q.bi)) >> \o [ k \in DOMAIN q.bi |-> QLine(<<ToString(q.bi[k][1]), ToString(q.bi[k][2]), Dec(q.bi[k][3])>>) ] ELSE <<>>)
     \o << Dec(q.inf) >>
     \o (IF HasCons(q) THEN Sec(q.cldef, q.cl, IV) \o Sec(q.cudef, q.cu, IV) ELSE <<>>)
     \o (IF q.v # "B" THEN Sec(q.ldef, q.l, IV) \o Sec(q.udef, q.u, IV) ELSE <<>>)
     \o (IF q.v \in {"M", "G"} THEN << ToString(q.tdef), ToString(Len(q.t)) >> \o [ k \in DOMAIN q.t |-> QLine(<<ToString(q.t[k][1]), ToString(q.t[k][2])>>) ] ELSE <<>>)
     \o << "0", "0" >> \o cm("# starting point sections")
     \o (IF HasCons(q) THEN << "0", "0" >> ELSE <<>>)
     \o << "0", "0" >>
     \o << ToString(Len(q.vnames)) >> \o [ k \in DOMAIN q.vnames |-> QLine(<<ToString(q.vnames[k][1]), q.vnames[k][2]>>) ]
     \o << ToString(Len(q.cnames)) >> \o [ k \in DOMAIN q.cnames |-> QLine(<<ToString(q.cnames[k][1]), q.cnames[k][2]>>) ]
\* fault injection: returns <<lines, expected error line number (1-based line in the file)>>
QRenderFault(q, lay, fault) ==
  LET ls == QRender(q, lay)
      typeIdx == IF lay.comments THEN 3 ELSE 2
  IN CASE fault = "bad_type" -> << [ls EXCEPT ![typeIdx] = "QXL"], typeIdx >>
       [] fault = "bad_sense" -> << [ls EXCEPT ![typeIdx + 1] = "minimise"], typeIdx + 1 >>
       [] fault = "bad_count" -> << [ls EXCEPT ![typeIdx + 2] = "two"], typeIdx + 2 >>
       [] fault = "eof" -> << SubSeq(ls, 1, Len(ls) - 3), Len(ls) - 3 >>
       \* a malformed number in an entry of a multi-entry section that is NOT the last one: the error carries the line of
       \* that entry (b^0 section: first entry; the section starts after the header and the Q^0 block)
       [] fault = "bad_b0_first" ->
            LET pre == (IF lay.comments THEN 2 ELSE 1) + 3 + (IF HasCons(q) THEN 1 ELSE 0) + (IF q.o # "L" THEN 1 + Len(q.q0) ELSE 0)
                idx == pre + 3 IN
            << [ls EXCEPT ![idx] = ToString(q.b0[1][1]) \o " 1x5"], idx >>
       [] fault = "bad_bi_first" ->
            LET pre == (IF lay.comments THEN 2 ELSE 1) + 3 + (IF HasCons(q) THEN 1 ELSE 0) + (IF q.o # "L" THEN 1 + Len(q.q0) ELSE 0)
                       + 2 + Len(q.b0) + (IF lay.comments THEN 1 ELSE 0) + 1 + (IF q.c \in {"D", "C", "Q"} THEN 1 + Len(q.qi) ELSE 0)
                idx == pre + 2 IN
            << [ls EXCEPT ![idx] = ToString(q.bi[1][1]) \o " " \o ToString(q.bi[1][2]) \o " 2,5"], idx >>
       [] OTHER -> << ls, 0 >>

\* ---- meaning ------------------------------------------------------------------------------------
ListVal(def, entries, i) == IF \E k \in DOMAIN entries : entries[k][1] = i
                            THEN entries[CHOOSE k \in DOMAIN entries : entries[k][1] = i][2] ELSE def
IsInfHi(q, x) == ~RLess(RAbs(x), q.inf)        \* |x| >= infinity
QuadTermsOf(es) == [ k \in DOMAIN es |-> LET i == es[k][1] - 1  j == es[k][2] - 1  v == es[k][3] IN
                      [ids |-> <<j, i>>, c |-> IF i = j THEN RMul(v, <<1, 2>>) ELSE v] ]
LinTermsOf(q, def, entries) == [ i \in 1..q.n |-> [ids |-> <<i - 1>>, c |-> ListVal(def, entries, i)] ]
QObjective(q) == Canon((IF q.o = "L" THEN <<>> ELSE QuadTermsOf(q.q0)) \o LinTermsOf(q, q.b0def, q.b0) \o << [ids |-> <<>>, c |-> q.q0const] >>)
QConExpr(q, k) == Canon((IF q.c \in {"D", "C", "Q"} THEN QuadTermsOf([ x \in DOMAIN SelectSeq(q.qi, LAMBDA e : e[1] = k) |->
                                LET e == SelectSeq(q.qi, LAMBDA y : y[1] = k)[x] IN <<e[2], e[3], e[4]>> ]) ELSE <<>>)
                        \o [ x \in DOMAIN SelectSeq(q.bi, LAMBDA e : e[1] = k) |->
                                LET e == SelectSeq(q.bi, LAMBDA y : y[1] = k)[x] IN [ids |-> <<e[2] - 1>>, c |-> e[3]] ])
\* constraints: id k-1 for the c_u side, m + k-1 for the c_l side (0-based), each "<= 0"
QCons(q) == IF ~HasCons(q) THEN {} ELSE
  UNION { LET cu == ListVal(q.cudef, q.cu, k)  cl == ListVal(q.cldef, q.cl, k)  ex == QConExpr(q, k) IN
          (IF IsInfHi(q, cu) THEN {} ELSE { [id |-> k - 1, f |-> PAdd(ex, PConst(RNeg(cu)))] })
          \cup (IF IsInfHi(q, cl) THEN {} ELSE { [id |-> q.m + k - 1, f |-> PAdd(PNeg(ex), PConst(cl))] }) : k \in 1..q.m }
QVarKind(q, i) == CASE q.v = "C" -> "continuous" [] q.v = "B" -> "binary" [] q.v = "I" -> "integer"
                    [] OTHER -> LET t == ListVal(q.tdef, q.t, i) IN IF t = 0 THEN "continuous" ELSE IF t = 1 THEN "integer" ELSE "binary"
QVarDomain(q, i) ==
  LET k == QVarKind(q, i)
      lo0 == IF q.v = "B" THEN Zero ELSE ListVal(q.ldef, q.l, i)
      hi0 == IF q.v = "B" THEN One ELSE ListVal(q.udef, q.u, i)
  IN [discrete |-> k \in {"integer", "binary"},
      lo |-> IF q.v # "B" /\ IsInfHi(q, lo0) THEN NInf ELSE lo0,
      hi |-> IF q.v # "B" /\ IsInfHi(q, hi0) THEN PInf ELSE hi0]
QplibLoadClauses(q, raw) ==
  LET I == AbsI(raw) IN
  [ sense |-> raw.sense = (IF q.sense = "maximize" THEN "max" ELSE "min"),
    objective |-> I.obj = QObjective(q),
    \* one "<= 0" constraint per finite side, compared as a BAG of functions (which id a side gets is not part of the
    \* property: `constraint_ids` records the SDK's scheme  k-1 / m+k-1  as an extension clause)
    constraints |-> LET want == QCons(q) IN
                    /\ Cardinality(DOMAIN I.cons) = Cardinality(want) /\ UniqueConIds(raw)
                    /\ \A w \in want : Cardinality({ c \in DOMAIN I.cons : I.cons[c].f = w.f }) = Cardinality({ x \in want : x.f = w.f })
                    /\ \A c \in DOMAIN I.cons : I.cons[c].eq = "le" /\ c \in I.active,
    constraint_ids |-> { [id |-> c, f |-> I.cons[c].f] : c \in DOMAIN I.cons } = QCons(q),
    vars |-> VarIds(raw) = 0..(q.n - 1) /\ UniqueVarIds(raw)
             /\ \A i \in 1..q.n : (i - 1) \in VarIds(raw) => LoadedDomain(VarOf(raw, i - 1)) = QVarDomain(q, i),
    names |-> \A i \in 1..q.n : (i - 1) \in VarIds(raw) =>
                 VarOf(raw, i - 1).name = (IF \E k \in DOMAIN q.vnames : q.vnames[k][1] = i THEN << ListVal("", q.vnames, i) >> ELSE <<>>) ]
=============================================================================
