------------------------------- MODULE JudgeText -------------------------------
(* Clauses for the text-format events (C17, C18, C19). *)
EXTENDS MpsText, QplibText
TextEvents == {"mps_load", "mps_roundtrip", "qplib_load"}
MpsErrKind(fault) == CASE fault \in {"undeclared_col_row", "undeclared_rhs_row", "undeclared_range_row"} -> "UnknownRowName"
                       [] fault = "bad_rowtype" -> "InvalidRowType" [] fault = "bad_boundtype" -> "InvalidBoundType"
                       [] fault = "bad_marker" -> "InvalidMarker" [] fault = "bad_sense" -> "InvalidObjSense"
                       [] fault = "bad_number" -> "ParseFloat" [] OTHER -> "none"
ClausesMpsLoad(e) ==
  LET m == e.in.model  fault == e.in.fault IN
  IF ~NoPanic(e) THEN [ no_panic |-> FALSE ]
  ELSE IF fault # "none" THEN
    [ no_panic |-> TRUE, rendered |-> e.in.lines = RenderFault(m, e.in.layout, fault),
      error_iff |-> e.out.tag = "err" /\ e.out.kind = MpsErrKind(fault) ]
  ELSE IF ~Ok(e) THEN [ no_panic |-> TRUE, error_iff |-> FALSE ]
  ELSE [ no_panic |-> TRUE, error_iff |-> TRUE, rendered |-> e.in.lines = Render(m, e.in.layout) ]
       @@ MpsLoadClauses(m, e.out.inst, e.in.by_id)

\* ---- C18: write, read back ----------------------------------------------------------------------
Linearish(raw) == /\ (raw.objective # <<>> => Degree(Denote(raw.objective[1])) <= 1)
                  /\ \A i \in DOMAIN raw.constraints : raw.constraints[i].f # <<>> => Degree(Denote(raw.constraints[i].f[1])) <= 1
Domain(v) == [discrete |-> v.kind \in {"integer", "binary"}, lo |-> EffBound(v).lo, hi |-> EffBound(v).hi]
ClausesMpsRoundtrip(e) ==
  LET pre == e.in.inst  I == AbsI(pre)
      usedActive == FnIds(pre.objective) \cup UNION { FnIds(pre.constraints[i].f) : i \in DOMAIN pre.constraints }
      usedDen == Ids(I.obj) \cup UNION { Ids(I.cons[c].f) : c \in I.active } IN
  IF ~NoPanic(e) THEN [ no_panic |-> FALSE ]
  ELSE IF ~Linearish(pre) THEN
    [ no_panic |-> TRUE,
      nonlinear_refused_named |-> e.out.tag = "write_err" /\
         (\/ (pre.objective # <<>> /\ Degree(Denote(pre.objective[1])) > 1 /\ e.out.kind = "InvalidObjectiveType")
          \/ e.out.kind = "InvalidConstraintType" /\
               \E i \in DOMAIN pre.constraints : pre.constraints[i].f # <<>> /\ Degree(Denote(pre.constraints[i].f[1])) > 1
                    /\ e.out.name = "OMMX_CONSTR_" \o ToString(pre.constraints[i].id)) ]
  ELSE IF ~Ok(e) THEN [ no_panic |-> TRUE, no_error |-> FALSE ]
  ELSE LET post == e.out.inst  J == AbsI(post) IN
  [ no_panic |-> TRUE,
    sense |-> J.sense = I.sense,
    objective |-> J.obj = I.obj,
    constraints |-> J.active = I.active /\ \A c \in I.active \cap J.active : J.cons[c].f = I.cons[c].f /\ J.cons[c].eq = I.cons[c].eq,
    ids |-> usedDen \subseteq DOMAIN J.vars /\ UniqueVarIds(post),
    domains |-> \A v \in usedDen \cap DOMAIN J.vars : Domain(VarOf(post, v)) = Domain(VarOf(pre, v)) ]

\* ---- C19 ------------------------------------------------------------------------------------------
ClausesQplibLoad(e) ==
  LET q == e.in.model  fault == e.in.fault IN
  IF ~NoPanic(e) THEN [ no_panic |-> FALSE ]
  ELSE IF fault # "none" THEN
    LET rf == QRenderFault(q, e.in.layout, fault) IN
    [ no_panic |-> TRUE, rendered |-> e.in.lines = rf[1],
      error_line |-> e.out.tag = "err" /\ e.out.line = << rf[2] >> ]
  ELSE IF ~Ok(e) THEN [ no_panic |-> TRUE, no_error |-> FALSE ]
  ELSE [ no_panic |-> TRUE, rendered |-> e.in.lines = QRender(q, e.in.layout) ] @@ QplibLoadClauses(q, e.out.inst)
ClausesText(e) == CASE e.ev = "mps_load" -> ClausesMpsLoad(e) [] e.ev = "mps_roundtrip" -> ClausesMpsRoundtrip(e)
                    [] e.ev = "qplib_load" -> ClausesQplibLoad(e)
=============================================================================
