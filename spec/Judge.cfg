INIT Init
NEXT Next
INVARIANT Done
POSTCONDITION Consumed
CHECK_DEADLOCK FALSE
