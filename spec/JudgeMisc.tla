------------------------------- MODULE JudgeMisc -------------------------------
(* Named clauses for validation (C08), text formats (C17-C19), artifacts (C20) and the wire format (C07). *)
EXTENDS Validate, JudgeArtifact, JudgeWire
MiscEvents == {"validate", "pvalidate", "typed"} \cup ExtraEvents \cup TextEvents \cup ArtifactEvents \cup WireEvents
ClausesValidate(e) ==
  [ no_panic |-> NoPanic(e),
    validate_iff |-> Ok(e) <=> ValidateOK(e.in.inst) ]
ClausesPValidate(e) ==
  [ no_panic |-> NoPanic(e),
    parametric_validate_iff |-> Ok(e) <=> PValidateOK(e.in.pinst) ]
ClausesTyped(e) ==
  LET raw == e.in.inst  faults == TypedFaults(raw)  dc == HintOnRemoved(raw) IN
  IF ~NoPanic(e) THEN [ no_panic |-> FALSE ]
  ELSE IF Ok(e) THEN
    [ no_panic |-> TRUE,
      typed_rejects |-> faults = {},
      typed_content |-> faults = {} => TypedContentOK(raw, e.out.view) ]
  ELSE
    LET needDetail == e.out.rule \in {"MissingField", "UnspecifiedEnum"}
        seen == <<e.out.rule, e.out.path, IF needDetail THEN e.out.detail ELSE <<>> >>
        hintErr == e.out.rule = "UndefinedConstraintID" IN
    [ no_panic |-> TRUE,
      typed_accepts_wellformed |-> faults # {} \/ (dc /\ hintErr),
      error_rule |-> (dc /\ hintErr) \/ \E f \in faults : f[1] = e.out.rule,
      error_path |-> (dc /\ hintErr) \/ seen \in faults ]
ClausesMisc(e) ==
  CASE e.ev = "validate" -> ClausesValidate(e)
    [] e.ev = "pvalidate" -> ClausesPValidate(e)
    [] e.ev = "typed" -> ClausesTyped(e)
    [] e.ev \in ExtraEvents -> ClausesExtra(e)
    [] e.ev \in TextEvents -> ClausesText(e)
    [] e.ev = "artifact" -> ClausesArtifact(e)
    [] e.ev = "store_op" -> ClausesStoreOp(e)
    [] e.ev \in WireEvents -> ClausesWire(e)
=============================================================================
