------------------------------- MODULE JudgeMisc -------------------------------
EXTENDS JudgeInst
MiscEvents == {}
ClausesMisc(e) == [ known_event |-> FALSE ]
=============================================================================
