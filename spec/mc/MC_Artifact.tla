------------------------------- MODULE MC_Artifact -------------------------------
(* All histories of add_* operations up to a length: the store is append-only, keeps insertion order and kinds,
   and typed reads by digest succeed exactly for (digest, kind) pairs that were stored. *)
EXTENDS Artifact, TLC
CONSTANT MaxLen
VARIABLES layers, history
Payloads == {"empty", "p1", "p2"}          \* "empty" encodes to the same bytes under every kind
Bytes(l) == IF l.payload = "empty" THEN "" ELSE l.kind \o ":" \o l.payload   \* distinct kinds never collide otherwise
Init == layers = <<>> /\ history = <<>>
Add(k, p) == /\ Len(layers) < MaxLen
             /\ layers' = Append(layers, [kind |-> k, payload |-> p])
             /\ history' = Append(history, layers)
Next == \E k \in LayerKinds, p \in Payloads : Add(k, p)
AppendOnly == \A i \in DOMAIN history : Len(history[i]) <= Len(layers) /\ SubSeq(layers, 1, Len(history[i])) = history[i]
TypedReads == \A k \in LayerKinds, i \in DOMAIN layers :
                 GetAsOK(layers, Bytes, k, Bytes(layers[i])) <=> (\E j \in DOMAIN layers : Bytes(layers[j]) = Bytes(layers[i]) /\ layers[j].kind = k)
WrongKindFails == \A i \in DOMAIN layers : layers[i].payload # "empty" =>
                    \A k \in LayerKinds \ {layers[i].kind} : ~GetAsOK(layers, Bytes, k, Bytes(layers[i]))
UnknownFails == \A k \in LayerKinds : ~GetAsOK(layers, Bytes, k, "no-such-digest")
ByKindInOrder == \A k \in LayerKinds : LET s == LayersOfKind(layers, k) IN \A a, b \in DOMAIN s : a < b =>
                    \E i, j \in DOMAIN layers : i < j /\ layers[i] = s[a] /\ layers[j] = s[b]
=============================================================================
