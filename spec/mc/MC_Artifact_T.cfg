CONSTANT MaxLen = 6
INIT Init
NEXT Next
INVARIANTS AppendOnly TypedReads WrongKindFails UnknownFails ByKindInOrder
CHECK_DEADLOCK FALSE
