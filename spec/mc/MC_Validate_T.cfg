CONSTANT Depth = 2
INIT Init
NEXT Next
INVARIANTS BasesOK TypedImpliesValid PathsRooted
CHECK_DEADLOCK FALSE
