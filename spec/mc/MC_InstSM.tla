------------------------------- MODULE MC_InstSM -------------------------------
(* The instance under arbitrary histories of the transformation API, model-checked over a small universe.
   Properties (each evaluated on every transition, so a violated one is reported with its history):
     C03  partial evaluation commutes with evaluation (objective, per-constraint values, flags, reported state),
          also in two steps;                      C04  substitution is composition, dependents are reported;
     C09  penalty objective identity at every grid state and weight;   C10  instantiating = evaluating;
     C14  relax/restore only move constraints: values and `feasible` invariant, relaxed depends on active only,
          failing operations are stuttering;      C15  as_minimization ranks states identically, idempotent;
     WF   AbsI(RawOf(I)) = I  (the abstraction used by the judge loses nothing the operators look at). *)
EXTENDS Inst
CONSTANTS MaxOps, MaxNew      \* history length; how many id-creating calls (log-encode, slack) one history may contain
VARIABLES inst, n, made
V(k, b) == [kind |-> k, bound |-> b, fixed |-> <<>>, meta |-> [name |-> <<>>, subs |-> <<>>, params |-> <<>>, desc |-> <<>>]]
B(lo, hi) == << [lo |-> lo, hi |-> hi] >>
M0 == [name |-> <<>>, subs |-> <<>>, params |-> <<>>, desc |-> <<>>]
X1 == PVar(1)  X2 == PVar(2)  X3 == PVar(3)
F1 == PAdd(PAdd(X1, X2), PConst(R(-2)))                 \* x1 + x2 - 2
F2 == PSub(PMul(X1, X2), X3)                             \* x1*x2 - x3
F3 == PSub(X3, PConst(One))                              \* x3 - 1
I0 == [sense |-> "max",
       vars |-> (1 :> V("integer", B(R(0), R(2))) @@ 2 :> V("binary", <<>>) @@ 3 :> V("continuous", B(R(-1), PInf)) @@ 4 :> V("integer", B(R(1), R(3)))),
       obj |-> PAdd(PMul(X1, X1), PScale(X3, R(2))),
       cons |-> (10 :> [f |-> F1, eq |-> "le", meta |-> M0] @@ 11 :> [f |-> F2, eq |-> "eq", meta |-> M0] @@ 12 :> [f |-> F3, eq |-> "le", meta |-> M0]),
       active |-> {10, 11}, removed |-> (12 :> [reason |-> "r0", rparams |-> <<>>]), deps |-> <<>>,
       params |-> <<>>, hints |-> <<>>, parameters |-> <<>>]
Restrict2(f, S) == [ x \in S |-> f[x] ]
\* evaluation grid: the three original variables range over {0,1,2}; a variable created on the way (log-encoding bit, slack)
\* ranges over the integers of its bound (at most the first four)
VarVals(I, v) == IF v \in {1, 2, 3} THEN {R(0), R(1), R(2)}
                 ELSE LET b == EffBound(I.vars[v])  lo == RCeil(b.lo)  hi == RFloor(b.hi) IN { R(k) : k \in lo..(IF hi > lo + 3 THEN lo + 3 ELSE hi) }
GridVars(I) == { v \in DOMAIN I.vars \ {4} : I.vars[v].fixed = <<>> /\ v \notin DOMAIN I.deps } \cup {1, 2, 3}
RECURSIVE GridOver(_,_)
GridOver(I, S) == IF S = {} THEN { <<>> }
                  ELSE LET v == CHOOSE x \in S : TRUE IN { (v :> x) @@ g : x \in VarVals(I, v), g \in GridOver(I, S \ {v}) }
Grid(I) == GridOver(I, GridVars(I))
\* for the pairwise ranking check: created variables at their lowest value only
PairGrid(I) == { g \in Grid(I) : \A v \in DOMAIN g \ {1, 2, 3} : g[v] = R(RCeil(EffBound(I.vars[v]).lo)) }
Parts == { [v \in S |-> x] : S \in {{1}, {2}, {3}, {1, 3}}, x \in {R(0), R(1)} }
Repls == { (1 :> PAdd(X2, PConst(One))), (3 :> PMul(X1, X2)) }
Weights == {R(0), R(2), <<1,2>>}
Sol(I, st) == IF SolRejects(RawOf(I), st) THEN [ok |-> FALSE] ELSE [ok |-> TRUE] @@ SolOf(RawOf(I), st)
NotFixed(I, S) == \A v \in S : I.vars[v].fixed = <<>>
Free(I) == { v \in DOMAIN I.vars \ {4} : I.vars[v].fixed = <<>> /\ v \notin DOMAIN I.deps }
\* C03: I -> J fixing s1; for every grid state extending s1
CheckPartial(I, J, s1) == \A st \in Grid(I) :
   (Restrict2(st, DOMAIN s1) = s1) =>
      LET dom == Free(I)  full == Restrict2(st, dom)  rest == Restrict2(st, dom \ DOMAIN s1)
          a == Sol(I, full)  b == Sol(J, rest) IN
      a.ok => (b.ok /\ a = b)
CheckTwoStep(I, s1) == \A v \in DOMAIN s1 :
   LET sa == Restrict2(s1, {v})  sb == Restrict2(s1, DOMAIN s1 \ {v}) IN
   PartialEvaluate(PartialEvaluate(I, sa), sb) = PartialEvaluate(I, s1)
\* C14
CheckMove(I, J) == \A st \in Grid(I) : LET full == Restrict2(st, Free(I))  a == Sol(I, full)  b == Sol(J, full) IN
      a.ok = b.ok /\ (a.ok => { [id |-> c.id, value |-> c.value, eq |-> c.eq] : c \in a.cons } = { [id |-> c.id, value |-> c.value, eq |-> c.eq] : c \in b.cons }
                              /\ a.feasible = b.feasible /\ a.objective = b.objective /\ a.state = b.state)
RelaxedDependsOnActive(I) == \A st \in Grid(I) : LET full == Restrict2(st, Free(I))  a == Sol(I, full) IN
      a.ok => (a.relaxed <=> \A c \in I.active : Feas(I.cons[c].eq, PEval(I.cons[c].f, full)))
\* C04: I -> J substituting r; the solution of J at a state over the remaining variables equals that of I at the extended state
CheckSubst(I, J, r) == \A st \in Grid(I) :
   LET dom == Free(I) \ DOMAIN r   rest == Restrict2(st, dom)
       ext == [ v \in dom \cup DOMAIN r |-> IF v \in DOMAIN r THEN PEval(r[v], rest) ELSE rest[v] ]
       b == Sol(J, rest) IN
   (\A v \in DOMAIN r : Ids(r[v]) \subseteq dom /\ PEval(r[v], rest) # Err) =>
      (b.ok => /\ b.objective = PEval(I.obj, ext)
               /\ \A c \in b.cons : c.value = PEval(I.cons[c.id].f, ext)
               /\ \A v \in DOMAIN r : b.state[v] = ext[v])
\* C09 / C10
CheckPenalty(I) ==
  LET pid == [c \in I.active |-> 100 + c]  P == Penalty(I, pid)  U == UniformPenalty(I, 99) IN
  /\ P.active = {} /\ DOMAIN P.cons = DOMAIN I.cons /\ P.cons = I.cons /\ \A c \in DOMAIN I.removed : P.removed[c] = I.removed[c]
  /\ \A st \in Grid(I) : \A w \in [I.active -> Weights] :
        LET full == Restrict2(st, Free(I))
            wst == [ v \in DOMAIN full \cup { pid[c] : c \in I.active } |-> IF v \in DOMAIN full THEN full[v] ELSE w[CHOOSE c \in I.active : pid[c] = v] ] IN
        (PEval(I.obj, full) # Err) =>
          /\ PEval(P.obj, wst) = RAdd(PEval(I.obj, full), RSumSet(I.active, LAMBDA c : RMul(w[c], RMul(PEval(I.cons[c].f, full), PEval(I.cons[c].f, full)))))
          /\ LET Q == WithParameters(P, [ p \in { pid[c] : c \in I.active } |-> w[CHOOSE c \in I.active : pid[c] = p] ]) IN
             PEval(Q.obj, full) = PEval(P.obj, wst) /\ Q.active = {} /\ DOMAIN Q.parameters = {}
  /\ \A st \in Grid(I) : \A w \in Weights :
        LET full == Restrict2(st, Free(I))  wst == [ v \in DOMAIN full \cup {99} |-> IF v = 99 THEN w ELSE full[v] ] IN
        (PEval(I.obj, full) # Err) =>
          PEval(U.obj, wst) = RAdd(PEval(I.obj, full), RMul(w, RSumSet(I.active, LAMBDA c : RMul(PEval(I.cons[c].f, full), PEval(I.cons[c].f, full)))))
\* C15
CheckAsMin(I) == LET J == AsMin(I) IN
  /\ J.sense = "min" /\ AsMin(J) = J /\ J.cons = I.cons /\ J.vars = I.vars /\ J.active = I.active
  /\ \A s, t \in PairGrid(I) : LET fs == Restrict2(s, Free(I))  ft == Restrict2(t, Free(I))
                            a == PEval(I.obj, fs)  b == PEval(I.obj, ft)  a2 == PEval(J.obj, fs)  b2 == PEval(J.obj, ft) IN
        (a # Err /\ b # Err) => ((IF I.sense = "max" THEN RLess(b, a) ELSE RLess(a, b)) <=> RLess(a2, b2))
\* C12 (+C04): log-encode v and substitute the encoding.  The encoding takes exactly the integers of v's bound; for every
\* assignment of the other free variables and every bit pattern the encoded instance evaluates like the original at the
\* decoded value, and reports the decoded value for v.
CheckEncode(I, J, v, r) ==
  LET b == I.vars[v].bound[1]  lo == RCeil(b.lo)  hi == RFloor(b.hi)
      pats == [ r.bits -> {Zero, One} ] IN
  /\ { PEval(r.enc, p) : p \in pats } = { R(k) : k \in lo..hi }
  /\ r.bits \cap DOMAIN I.vars = {} /\ Ids(r.enc) \subseteq r.bits
  /\ \A st \in Grid(I) : \A p \in pats :
        LET rest == Restrict2(st, Free(I) \ {v})
            orig == [ x \in DOMAIN rest \cup ({v} \cap Free(I)) |-> IF x = v THEN PEval(r.enc, p) ELSE rest[x] ]
            a == Sol(I, orig)  bb == Sol(J, rest @@ p) IN
        a.ok => /\ bb.ok /\ bb.objective = a.objective /\ bb.feasible = a.feasible /\ bb.relaxed = a.relaxed
                /\ { [id |-> c.id, value |-> c.value] : c \in bb.cons } = { [id |-> c.id, value |-> c.value] : c \in a.cons }
                /\ bb.state[v] = PEval(r.enc, p)
\* C13: the conversion keeps the feasible set of the converted constraint (every grid point: f <= 0 holds iff some slack
\* value in the new variable's bound satisfies the equality), changes nothing else, and "relaxed"/"infeasible" outcomes are
\* justified on the whole grid
CheckSlack(I, c, o) ==
  LET f == I.cons[c].f
      pts == { Restrict2(st, Free(I)) : st \in Grid(I) }
      inbox(x) == \A v \in Ids(f) : In(x[v], EffBound(I.vars[v]))
      holds(x) == Feas("le", PEval(f, x)) IN
  CASE o.tag = "infeasible" -> \A x \in pts : inbox(x) => ~holds(x)
    [] o.tag = "relaxed" -> /\ \A x \in pts : inbox(x) => holds(x)
                            /\ CheckMove(I, o.inst)
    [] o.tag = "converted" ->
         LET J == o.inst  s == o.slack  sb == J.vars[s].bound[1]  g == J.cons[c].f IN
         /\ [J EXCEPT !.vars = I.vars, !.cons = I.cons] = I /\ \A k \in DOMAIN I.cons \ {c} : J.cons[k] = I.cons[k]
         /\ \A v \in DOMAIN I.vars : J.vars[v] = I.vars[v]
         /\ \A x \in pts : inbox(x) =>
               (holds(x) <=> \E k \in RCeil(sb.lo)..RFloor(sb.hi) : Feas("eq", PEval(g, x @@ (s :> R(k)))))
    [] OTHER -> TRUE
RoundTrip(I) == AbsI(RawOf(I)) = I
Init == inst = I0 /\ n = 0 /\ made = 0
DoPartial == \E s1 \in Parts : DOMAIN s1 \subseteq Free(inst) /\ inst' = PartialEvaluate(inst, s1)
                /\ Assert(CheckPartial(inst, inst', s1), <<"C03 partial/evaluate do not commute", s1>>)
                /\ Assert(CheckTwoStep(inst, s1), <<"C03 two-step", s1>>)
DoRelax == \E c \in inst.active \cup {99} :
             IF c \in inst.active THEN inst' = Relax(inst, c, "r1", <<>>) /\ Assert(CheckMove(inst, inst'), "C14 relax") ELSE inst' = inst
DoRestore == \E c \in DOMAIN inst.removed \cup {99} :
             IF c \in DOMAIN inst.removed THEN inst' = Restore(inst, c) /\ Assert(CheckMove(inst, inst'), "C14 restore") ELSE inst' = inst
DoSubst == \E r \in Repls : DOMAIN r \subseteq Free(inst) /\ (\A v \in DOMAIN r : Ids(r[v]) \subseteq Free(inst) \ DOMAIN r)
             /\ inst' = Substitute(inst, r) /\ Assert(CheckSubst(inst, inst', r), <<"C04 substitution", r>>)
DoAsMin == inst' = AsMin(inst)
\* the id-creating calls (at most MaxNew of them in one history keeps the grids small)
DoEncode == \E v \in {1, 4} : /\ CanEncode(inst, v) /\ inst.vars[v].fixed = <<>> /\ v \notin DOMAIN inst.deps
              /\ LET r == LogEncodeRef(inst, v)  J == Substitute(r.inst, v :> r.enc) IN
                 inst' = J /\ Assert(CheckEncode(inst, J, v, r), <<"C12/C04 log-encode then substitute", v>>)
DoSlack == \E c \in inst.active : /\ CanSlack(inst, c)
              /\ LET o == SlackConvertRef(inst, c) IN
                 inst' = o.inst /\ Assert(CheckSlack(inst, c, o), <<"C13 integer slack", c, o.tag>>)
Next == /\ n < MaxOps /\ n' = n + 1
        /\ \/ made' = made /\ (DoPartial \/ DoRelax \/ DoRestore \/ DoSubst \/ DoAsMin)
           \/ made < MaxNew /\ made' = made + 1 /\ (DoEncode \/ DoSlack)
Conserved == DOMAIN inst.cons = inst.active \cup DOMAIN inst.removed /\ inst.active \cap DOMAIN inst.removed = {}
           /\ DOMAIN inst.cons = DOMAIN I0.cons
           /\ \A c \in DOMAIN inst.cons : inst.cons[c].eq = I0.cons[c].eq \/ (I0.cons[c].eq = "le" /\ inst.cons[c].eq = "eq")   \* only a slack conversion changes a kind
PenaltyOK == CheckPenalty(inst)
AsMinOK == CheckAsMin(inst)
RelaxedOK == RelaxedDependsOnActive(inst)
RoundTripOK == RoundTrip(inst)
=============================================================================
