CONSTANTS MaxOps = 4 MaxNew = 2
INIT Init
NEXT Next
INVARIANTS Conserved PenaltyOK AsMinOK RelaxedOK RoundTripOK
CHECK_DEADLOCK FALSE
