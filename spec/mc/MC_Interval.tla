------------------------------- MODULE MC_Interval -------------------------------
EXTENDS Interval
E == {NInf, R(-3), R(-1), <<-1,2>>, Zero, <<1,2>>, One, R(2), PInf}
Ivs == { b \in [lo : E, hi : E] : Valid(b) }
\* sample points of an interval: finite endpoints, midpoints-ish, and large magnitudes on infinite sides
Pts(b) == { x \in E \cup {R(-6), R(6), <<3,2>>, <<-3,2>>} : x[2] # 0 /\ In(x, b) }
VARIABLES a, b
Init == a \in Ivs /\ b \in Ivs
Next == UNCHANGED <<a, b>>
AddOK == \A x \in Pts(a), y \in Pts(b) : In(RAdd(x, y), HullAdd(a, b))
MulOK == \A x \in Pts(a), y \in Pts(b) : In(RMul(x, y), HullMul(a, b))
PowOK == \A n \in 0..5 : \A x \in Pts(a) : In(XPow(x, n), HullPow(a, n))
ScaleOK == \A k \in {R(-2), <<-1,2>>, <<1,2>>, R(3)} : \A x \in Pts(a) : In(RMul(x, k), HullScale(a, k))
ValidOK == Valid(HullAdd(a, b)) /\ Valid(HullMul(a, b)) /\ \A n \in 0..5 : Valid(HullPow(a, n))
\* tightness: finite hull endpoints are attained at endpoints (so the hull is exact, not merely enclosing)
TightMul == LET h == HullMul(a, b) IN
            (h.lo[2] # 0 => \E x \in {a.lo, a.hi}, y \in {b.lo, b.hi} : XMul(x, y) = h.lo) /\
            (h.hi[2] # 0 => \E x \in {a.lo, a.hi}, y \in {b.lo, b.hi} : XMul(x, y) = h.hi)
Count == Cardinality(Ivs) = 43
=============================================================================
