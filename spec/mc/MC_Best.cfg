INIT Init
NEXT Next
INVARIANT WellDefined
CHECK_DEADLOCK FALSE
