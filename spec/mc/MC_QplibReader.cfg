SPECIFICATION Spec
INVARIANTS Rebuilds FaultLine NoStuckQ TextIsTokens
PROPERTY ProgressQ
CHECK_DEADLOCK FALSE
