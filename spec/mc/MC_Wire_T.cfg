CONSTANT Depth = 3
INIT Init
NEXT Next
INVARIANTS LayoutIndependent EmptyIsDefault
CHECK_DEADLOCK FALSE
