------------------------------- MODULE MC_Poly -------------------------------
EXTENDS Msg, TLC
CONSTANT Full
IdsU == {1, 2}
Cs == {R(-1), R(0), R(2), <<1,2>>}
LinT == [id : IdsU, c : Cs]
Lins == [kind : {"linear"}, terms : UNION { [1..n -> LinT] : n \in 0..2 }, constant : {R(0), R(2)}]
SmallLins == [kind : {"linear"}, terms : UNION { [1..n -> LinT] : n \in 0..1 }, constant : {R(0), R(2)}]
Quads == { [kind |-> "quadratic", rows |-> r, columns |-> c, values |-> v, linear |-> l] :
            r \in UNION { [1..n -> IdsU] : n \in 0..2 }, c \in UNION { [1..n -> IdsU] : n \in 0..2 },
            v \in UNION { [1..n -> {R(-1),R(0),R(2)}] : n \in 0..2 }, l \in {<<>>} \cup { <<x>> : x \in SmallLins } }
WQuads == { q \in Quads : WellShaped(q) }
MonoT == [ids : UNION { [1..n -> IdsU] : n \in 0..3 }, c : {R(-1), R(0), R(2)}]
Polys == [kind : {"polynomial"}, terms : UNION { [1..n -> MonoT] : n \in 0..2 }]
Msgs == { [kind |-> "none"] } \cup [kind : {"constant"}, c : Cs] \cup Lins \cup WQuads \cup Polys
States == [IdsU -> {R(-1), R(0), <<3,2>>}]
VARIABLES f, g, h, phase
SmallPool == { [kind |-> "none"] } \cup [kind : {"constant"}, c : {R(2), <<1,2>>}] \cup SmallLins
             \cup { q \in WQuads : Len(q.values) <= 1 /\ q.linear = <<>> } \cup [kind : {"polynomial"}, terms : UNION { [1..n -> [ids : UNION { [1..k -> IdsU] : k \in 0..2 }, c : {R(-1), R(2)}]] : n \in 0..1 }]
Init == f = [kind |-> "none"] /\ g = f /\ h = f /\ phase = 0
Next == \/ phase = 0 /\ phase' = 1 /\ f' \in (IF Full THEN Msgs ELSE SmallPool) /\ UNCHANGED <<g, h>>
        \/ phase = 0 /\ phase' = 2 /\ f' \in SmallPool /\ g' \in SmallPool /\ h' \in {[kind |-> "constant", c |-> R(2)], [kind |-> "linear", terms |-> <<[id |-> 2, c |-> R(-1)]>>, constant |-> <<1,2>>]}
\* ring laws of the polynomial algebra and evaluation as a ring homomorphism (C02's oracle)
Ring == phase = 2 =>
  LET a == Denote(f)  b == Denote(g)  c == Denote(h) IN
  /\ PAdd(a, b) = PAdd(b, a) /\ PMul(a, b) = PMul(b, a)
  /\ PAdd(PAdd(a, b), c) = PAdd(a, PAdd(b, c)) /\ PMul(PMul(a, b), c) = PMul(a, PMul(b, c))
  /\ PMul(a, PAdd(b, c)) = PAdd(PMul(a, b), PMul(a, c))
  /\ PSub(a, a) = PZero /\ PNeg(PNeg(a)) = a /\ PAdd(a, PZero) = a /\ PMul(a, PConst(One)) = a
  /\ \A st \in States : /\ PEval(PAdd(a, b), st) = RAdd(PEval(a, st), PEval(b, st))
                        /\ PEval(PMul(a, b), st) = RMul(PEval(a, st), PEval(b, st))
  /\ Degree(PMul(a, b)) <= Degree(a) + Degree(b)
\* T1: term-by-term evaluation = evaluation of the denotation, for all complete states
T1 == phase = 1 => \A st \in States : DirectEval(f, st) = PEval(Denote(f), st)
\* T3: partial evaluation commutes (fix x1 then evaluate x2)
T3 == phase = 1 => \A st \in States :
        LET s1 == [v \in {1} |-> st[1]]  s2 == [v \in {2} |-> st[2]] IN
        /\ PEval(PPartial(Denote(f), s1), s2) = PEval(Denote(f), st)
        /\ Ids(PPartial(Denote(f), s1)) \cap {1} = {}
        /\ PPartial(PPartial(Denote(f), s1), s2) = PPartial(Denote(f), st)
\* T4: substitution is composition:  x1 := x2*x1 + 1 , x2 := 2  simultaneously
Repl == [v \in {1,2} |-> IF v = 1 THEN PAdd(PMul(PVar(2), PVar(1)), PConst(One)) ELSE PConst(R(2))]
T4 == phase = 1 => \A st \in States :
        PEval(PSubst(Denote(f), Repl), st) = PEval(Denote(f), [v \in {1,2} |-> PEval(Repl[v], st)])
\* T8: x^2 = x reduction preserves values on {0,1}^n
T8 == phase = 1 => \A st \in [IdsU -> {Zero,One}] : PEval(BinaryReduce(Denote(f)), st) = PEval(Denote(f), st)
=============================================================================
