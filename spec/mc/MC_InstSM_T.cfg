CONSTANTS MaxOps = 5 MaxNew = 0
INIT Init
NEXT Next
INVARIANTS Conserved PenaltyOK AsMinOK RelaxedOK RoundTripOK
CHECK_DEADLOCK FALSE
