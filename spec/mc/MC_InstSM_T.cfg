CONSTANT MaxOps = 5
INIT Init
NEXT Next
INVARIANTS Conserved PenaltyOK AsMinOK RelaxedOK RoundTripOK
CHECK_DEADLOCK FALSE
