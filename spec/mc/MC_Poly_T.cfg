CONSTANT Full = TRUE
INIT Init
NEXT Next
INVARIANTS T1 T3 T4 T8 Ring
CHECK_DEADLOCK FALSE
