------------------------------- MODULE MC_MpsReader -------------------------------
(* C17 on the specification itself: the operational reader (MpsReader: one action per line) run on the file that
   the independent writer renders for a model ends in exactly the problem that the declarative Meaning assigns to
   the model -- for every model of the exhaustive families of Gen_Mps, in both packings -- and every injected
   fault stops the reader with the corresponding error.  Also: the token lines are the text lines. *)
EXTENDS MpsReader
VARIABLES model, fault, lay2
allv == <<rvars, model, fault, lay2>>
Bd(ty, v) == [type |-> ty, val |-> v]
BoundScenarios == { <<>>, << Bd("UP", <<R(4)>>) >>, << Bd("UP", <<R(-2)>>) >>, << Bd("LO", <<R(1)>>) >>, << Bd("LO", <<R(-3)>>) >>,
  << Bd("LO", <<R(1)>>), Bd("UP", <<R(4)>>) >>, << Bd("UP", <<R(4)>>), Bd("LO", <<R(1)>>) >>, << Bd("FX", <<R(2)>>) >>,
  << Bd("MI", <<>>) >>, << Bd("MI", <<>>), Bd("UP", <<R(3)>>) >>, << Bd("PL", <<>>) >>, << Bd("FR", <<>>) >>, << Bd("BV", <<>>) >>,
  << Bd("LI", <<R(-2)>>) >>, << Bd("UI", <<R(5)>>) >>, << Bd("LI", <<R(0)>>), Bd("UI", <<R(1)>>) >>, << Bd("UP", <<R(1)>>) >>,
  << Bd("LO", <<R(1)>>), Bd("UP", <<R(1)>>) >>, << Bd("UP", << <<5,2>> >>), Bd("LO", << <<-1,4>> >>) >>, << Bd("LO", <<R(-4)>>), Bd("UP", <<R(-1)>>) >> }
Col(name, int, obj, coefs, bounds) == [name |-> name, int |-> int, obj |-> obj, coefs |-> coefs, bounds |-> bounds]
Row(name, type, rhs, range) == [name |-> name, type |-> type, rhs |-> rhs, range |-> range]
Model(sense, own, objRhs, rows, cols) == [name |-> "prob", sense |-> sense, senseOwnLine |-> own, objName |-> "COST", objRhs |-> objRhs, rows |-> rows, cols |-> cols]
BaseRows == << Row("R1", "L", <<R(4)>>, <<>>), Row("R2", "G", <<R(-1)>>, <<>>) >>
BaseCols == << Col("X", FALSE, <<R(1)>>, << <<1, R(1)>>, <<2, R(2)>> >>, <<>>), Col("Y", TRUE, <<R(-3)>>, << <<1, <<1,2>> >> >>, << Bd("UP", <<R(7)>>) >>) >>
Models ==
     { Model("absent", FALSE, <<>>, BaseRows, << Col("X", int, <<R(1)>>, << <<1, R(1)>> >>, sc), BaseCols[2] >>) : sc \in BoundScenarios, int \in BOOLEAN }
  \cup { Model("absent", FALSE, orhs, << Row("R1", ty, rhs, rng), BaseRows[2] >>, BaseCols) :
         ty \in {"E", "L", "G"}, rhs \in {<<>>, <<R(3)>>, <<R(-2)>>}, rng \in {<<>>, <<R(2)>>, <<R(-2)>>, << <<1,2>> >>}, orhs \in {<<>>, <<R(5)>>, <<R(-1)>>} }
  \cup { Model(s[1], s[2], <<R(2)>>, BaseRows, BaseCols) : s \in {<<"absent", FALSE>>, <<"MIN", FALSE>>, <<"MAX", FALSE>>, <<"MAX", TRUE>>, <<"MIN", TRUE>>} }
  \cup { Model("MIN", FALSE, <<>>, <<>>, << Col("only", FALSE, <<R(2)>>, <<>>, <<>>) >>),
         Model("MIN", FALSE, <<>>, << Row("EMPTY", "E", <<R(1)>>, <<>>), BaseRows[1] >>, BaseCols) }
Faults == {"none", "undeclared_col_row", "undeclared_rhs_row", "undeclared_range_row", "bad_rowtype", "bad_boundtype", "bad_marker", "bad_sense", "bad_number"}
\* fault injection on token lines (mirrors MpsText!RenderFault)
IdxHdr(ls, h) == CHOOSE i \in DOMAIN ls : ls[i].hdr /\ ls[i].toks[1] = h
HasHdr(ls, h) == \E i \in DOMAIN ls : ls[i].hdr /\ ls[i].toks[1] = h
InsAfter(ls, h, new) == LET i == IdxHdr(ls, h) IN SubSeq(ls, 1, i) \o new \o SubSeq(ls, i + 1, Len(ls))
InsBefore(ls, h, new) == LET i == IdxHdr(ls, h) IN SubSeq(ls, 1, i - 1) \o new \o SubSeq(ls, i, Len(ls))
FaultT(m, two, f) ==
  LET ls == RenderT(m, [two |-> two])  tail == IF HasHdr(ls, "BOUNDS") THEN "BOUNDS" ELSE "ENDATA" IN
  CASE f = "undeclared_col_row" -> InsAfter(ls, "COLUMNS", << FL(<<"ZZ", "NOROW", "1">>) >>)
    [] f = "undeclared_rhs_row" -> InsAfter(ls, "RHS", << FL(<<"RHS", "NOROW", "1">>) >>)
    [] f = "undeclared_range_row" -> IF HasHdr(ls, "RANGES") THEN InsAfter(ls, "RANGES", << FL(<<"RNG", "NOROW", "1">>) >>)
                                     ELSE InsBefore(ls, tail, << HL(<<"RANGES">>), FL(<<"RNG", "NOROW", "1">>) >>)
    [] f = "bad_rowtype" -> InsAfter(ls, "ROWS", << FL(<<"Q", "BADROW">>) >>)
    [] f = "bad_boundtype" -> IF HasHdr(ls, "BOUNDS") THEN InsAfter(ls, "BOUNDS", << FL(<<"XX", "BND", "ZZ", "1">>) >>)
                              ELSE InsBefore(ls, "ENDATA", << HL(<<"BOUNDS">>), FL(<<"XX", "BND", "ZZ", "1">>) >>)
    [] f = "bad_marker" -> InsAfter(ls, "COLUMNS", << FL(<<"M9", "'MARKER'", "'INTFOO'">>) >>)
    [] f = "bad_sense" -> InsAfter(ls, "NAME", << HL(<<"OBJSENSE", "MAXIMUM">>) >>)
    [] f = "bad_number" -> InsAfter(ls, "RHS", << FL(<<"RHS", m.objName, "1x0">>) >>)
    [] OTHER -> ls
ExpectedErr(f) == CASE f \in {"undeclared_col_row", "undeclared_rhs_row", "undeclared_range_row"} -> "UnknownRowName"
                    [] f = "bad_rowtype" -> "InvalidRowType" [] f = "bad_boundtype" -> "InvalidBoundType" [] f = "bad_marker" -> "InvalidMarker"
                    [] f = "bad_sense" -> "InvalidObjSense" [] f = "bad_number" -> "ParseFloat" [] OTHER -> ""
Init == /\ model \in Models /\ lay2 \in BOOLEAN /\ fault \in Faults
        /\ (fault # "none" => model \in { Model("absent", FALSE, <<>>, << Row("R1", "L", <<R(4)>>, rg), BaseRows[2] >>, BaseCols) : rg \in {<<>>, <<R(2)>>} })
        /\ file = FaultT(model, lay2, fault) /\ nums = NumTable(model)
        /\ pos = 1 /\ cursor = "Name" /\ isInt = FALSE /\ waitSense = FALSE /\ t = EmptyTables /\ err = ""
Next == RNext /\ UNCHANGED <<model, fault, lay2>>
\* ---- properties ------------------------------------------------------------------------------------------------
AgreesWithMeaning == (Finished /\ fault = "none") => (err = "" /\ cursor = "End" /\ ReaderMeaning(t) = DeclMeaning(model))
FaultsStopTheReader == (Finished /\ fault # "none") => err = ExpectedErr(fault)
NoStuck == Finished \/ ENABLED RNext              \* every line of a rendered file is consumed by exactly some action
TokensAreText == pos = 1 => (fault # "none" \/ TextOf(file) = Render(model, [two |-> lay2, comments |-> FALSE, blank |-> FALSE]))
Progress == <>Finished
Spec == Init /\ [][Next]_allv /\ WF_allv(Next)
=============================================================================
