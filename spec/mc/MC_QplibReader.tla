------------------------------- MODULE MC_QplibReader -------------------------------
(* C19 on the specification itself: the operational QPLIB reader run on the rendered file rebuilds a model with the
   same meaning (objective, constraints, variable domains, names, sense) for every problem type code, and stops at
   the predicted line for every injected fault. *)
EXTENDS QplibReader
VARIABLES qm, qfault, qcomments
allq == <<qvars, qm, qfault, qcomments>>
Inf == R(1000)
Minimal(o, v, c) == [name |-> "MIN", o |-> o, v |-> v, c |-> c, sense |-> "minimize", n |-> 1, m |-> IF c \in {"N", "B"} THEN 0 ELSE 1,
  q0 |-> <<>>, b0def |-> Zero, b0 |-> <<>>, q0const |-> Zero, qi |-> <<>>, bi |-> <<>>, inf |-> Inf,
  cldef |-> RNeg(Inf), cl |-> <<>>, cudef |-> Inf, cu |-> <<>>, ldef |-> Zero, l |-> <<>>, udef |-> One, u |-> <<>>,
  tdef |-> 0, t |-> <<>>, vnames |-> <<>>, cnames |-> <<>>]
Dense(o, v, c, sense) == [name |-> "DENSE", o |-> o, v |-> v, c |-> c, sense |-> sense, n |-> 3, m |-> IF c \in {"N", "B"} THEN 0 ELSE 2,
  q0 |-> << <<1, 1, R(4)>>, <<2, 1, R(3)>>, <<3, 3, R(-2)>>, <<3, 2, <<1,2>> >> >>,
  b0def |-> R(2), b0 |-> << <<2, R(5)>>, <<3, Zero>> >>, q0const |-> R(7),
  qi |-> << <<1, 1, 1, R(2)>>, <<1, 2, 1, R(-1)>>, <<2, 3, 3, R(6)>> >>,
  bi |-> << <<1, 1, R(1)>>, <<1, 3, R(-2)>>, <<2, 2, <<3,2>> >> >>, inf |-> Inf,
  cldef |-> R(-1), cl |-> << <<2, RNeg(Inf)>> >>, cudef |-> Inf, cu |-> << <<1, R(4)>>, <<2, R(2000)>> >>,
  ldef |-> R(-2), l |-> << <<1, RNeg(Inf)>>, <<3, Zero>> >>, udef |-> R(3), u |-> << <<2, Inf>>, <<3, One>> >>,
  tdef |-> 1, t |-> << <<1, 0>>, <<2, 2>> >>, vnames |-> << <<1, "alpha">>, <<3, "gamma">> >>, cnames |-> << <<1, "first">> >>]
Os == {"L", "D", "C", "Q"}  Vs == {"C", "B", "M", "I", "G"}  Cs == {"N", "B", "L", "D", "C", "Q"}
Models == { Minimal(o, v, c) : o \in Os, v \in Vs, c \in Cs } \cup { Dense(o, v, c, s) : o \in Os, v \in Vs, c \in Cs, s \in {"minimize", "maximize"} }
FaultFile(q, comments, f) ==
  LET ls == QRenderT(q, comments)  ti == IF comments THEN 3 ELSE 2 IN
  CASE f = "bad_type" -> [ls EXCEPT ![ti] = TL(<<"QXL">>)]
    [] f = "bad_sense" -> [ls EXCEPT ![ti + 1] = TL(<<"minimise">>)]
    [] f = "bad_count" -> [ls EXCEPT ![ti + 2] = TL(<<"two">>)]
    [] f = "eof" -> SubSeq(ls, 1, Len(ls) - 3)
    [] OTHER -> ls
Init == /\ qm \in Models /\ qcomments \in BOOLEAN /\ qfault \in {"none", "bad_type", "bad_sense", "bad_count", "eof"}
        /\ (qfault # "none" => qm \in { Dense("Q", "M", c, "minimize") : c \in {"N", "L", "Q"} })
        /\ qfile = FaultFile(qm, qcomments, qfault) /\ qnums = QNumTable(qm)
        /\ ln = 1 /\ stage = "name" /\ prog = <<>> /\ remaining = -2 /\ acc = EmptyAcc /\ qerr = FALSE /\ errline = 0
Next == QNext /\ UNCHANGED <<qm, qfault, qcomments>>
SameMeaning(a, q) ==
  /\ a.sense = q.sense /\ a.n = q.n /\ a.name = q.name /\ a.o = q.o /\ a.v = q.v /\ a.c = q.c
  /\ QObjective(a) = QObjective(q) /\ QCons(a) = QCons(q)
  /\ \A i \in 1..q.n : QVarDomain(a, i) = QVarDomain(q, i)
  /\ a.vnames = q.vnames /\ (HasCons(q) => a.cnames = q.cnames)
Rebuilds == (QFinished /\ qfault = "none") => (~qerr /\ SameMeaning(Rebuilt(qm), qm))
FaultLine == (QFinished /\ qfault # "none") => (qerr /\ errline = QRenderFault(qm, [comments |-> qcomments, trailing |-> FALSE], qfault)[2])
NoStuckQ == QFinished \/ ENABLED QNext
TextIsTokens == ln = 1 => (qfault # "none" \/ Len(qfile) = Len(QRender(qm, [comments |-> qcomments, trailing |-> FALSE])))
ProgressQ == <>QFinished
Spec == Init /\ [][Next]_allq /\ WF_allq(Next)
=============================================================================
