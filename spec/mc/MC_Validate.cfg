CONSTANT Depth = 1
INIT Init
NEXT Next
INVARIANTS BasesOK TypedImpliesValid PathsRooted SingleFaultsBite ValidateFaultsBite
CHECK_DEADLOCK FALSE
