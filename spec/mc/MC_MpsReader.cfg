SPECIFICATION Spec
INVARIANTS AgreesWithMeaning FaultsStopTheReader NoStuck TokensAreText
PROPERTY Progress
CHECK_DEADLOCK FALSE
