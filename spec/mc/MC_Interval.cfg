INIT Init
NEXT Next
INVARIANTS AddOK MulOK PowOK ScaleOK ValidOK TightMul Count
CHECK_DEADLOCK FALSE
