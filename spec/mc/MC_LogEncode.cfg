CONSTANTS MaxCoef = 9 MaxLen = 4 MaxWidth = 300
INIT Init
NEXT Next
INVARIANTS Criterion Reference
CHECK_DEADLOCK FALSE
