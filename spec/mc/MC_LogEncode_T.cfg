CONSTANTS MaxCoef = 12 MaxLen = 5 MaxWidth = 4096
INIT Init
NEXT Next
INVARIANTS Criterion Reference
CHECK_DEADLOCK FALSE
