------------------------------- MODULE MC_Store -------------------------------
(* All histories of the artifact store over two image names, three paths and three contents.
     Immutable    an entry of the registry or an archive file, once it exists, never changes            (action property)
     Provenance   whatever the registry returns for a name, and whatever an archive carrying a name contains, is a
                  content that was BUILT UNDER THAT NAME (contents never migrate between names), and an archive
                  without a name holds exactly what it was built with
     RoundTrip    load followed by save (and save followed by load into an empty registry slot) reproduces the content
     FailedOpsAreStuttering  by construction of StoreStep; checked on the recorded result *)
EXTENDS ArtifactStore
CONSTANT MaxOps
VARIABLES S, built, n, last
Names == {"n1", "n2"}
Paths == {"p1", "p2", "p3"}
Contents == { <<>>, << <<"solution", 1>> >>, << <<"instance", 2>>, <<"solution", 1>> >> }
Ops == { [op |-> "build_archive", path |-> p, name |-> nm, layers |-> c] : p \in Paths, nm \in { <<>> } \cup { <<x>> : x \in Names }, c \in Contents }
       \cup { [op |-> "build_dir", name |-> x, layers |-> c] : x \in Names, c \in Contents }
       \cup { [op |-> "load", path |-> p] : p \in Paths }
       \cup { [op |-> "save", name |-> x, out |-> p] : x \in Names, p \in Paths }
Init == S = EmptyStore /\ built = {} /\ n = 0 /\ last = [ok |-> TRUE, op |-> "none"]
Next == /\ n < MaxOps /\ n' = n + 1
        /\ \E op \in Ops : LET r == StoreStep(S, op) IN
             /\ S' = r.S /\ last' = [ok |-> r.ok, op |-> op.op]
             /\ built' = IF r.ok /\ op.op = "build_archive" THEN built \cup { <<op.name, op.layers>> }
                         ELSE IF r.ok /\ op.op = "build_dir" THEN built \cup { << <<op.name>>, op.layers >> }
                         ELSE built
vars == <<S, built, n, last>>
Immutable == [][ /\ \A k \in DOMAIN S.reg : k \in DOMAIN S'.reg /\ S'.reg[k] = S.reg[k]
                 /\ \A p \in DOMAIN S.files : p \in DOMAIN S'.files /\ S'.files[p] = S.files[p] ]_vars
Provenance == /\ \A k \in DOMAIN S.reg : << <<k>>, S.reg[k] >> \in built
              /\ \A p \in DOMAIN S.files : << S.files[p].name, S.files[p].content >> \in built
FailedOpsAreStuttering == [][ ~last'.ok => S' = S ]_vars
\* a round trip through the other medium gives the content back
RoundTrip == \A p \in DOMAIN S.files : S.files[p].name # <<>> =>
                LET nm == S.files[p].name[1]  r == StoreStep(S, [op |-> "load", path |-> p]) IN
                /\ r.ok
                /\ (nm \notin DOMAIN S.reg => \A q \in Paths \ DOMAIN S.files :
                       LET t == StoreStep(r.S, [op |-> "save", name |-> nm, out |-> q]) IN
                       t.ok /\ t.S.files[q] = S.files[p])
Spec == Init /\ [][Next]_vars
=============================================================================
