------------------------------- MODULE MC_Slack -------------------------------
(* C13 / C16: the natural interval extension encloses every attained value, and the reference integer-slack
   conversion  f(x) <= 0  ~>  a*f(x) + s = 0, s in 0..-L  keeps the feasible set, for all small integer problems. *)
EXTENDS Inst
CONSTANT Small
VARIABLES c1, c2, c12, c0, b1, b2, phase
Coefs == IF Small THEN {R(-1), R(1), <<1,2>>} ELSE {R(-2), R(-1), R(0), R(1), <<1,2>>, <<-1,3>>}
Bx(l, h) == [lo |-> R(l), hi |-> R(h)]
Boxes == IF Small THEN { Bx(-2, -1), Bx(-1, 1), Bx(0, 2) } ELSE { Bx(-2, -1), Bx(-1, 1), Bx(0, 2), Bx(0, 0), Bx(1, 3) }
F == Canon(<< [ids |-> <<1>>, c |-> c1], [ids |-> <<2>>, c |-> c2], [ids |-> <<1, 2>>, c |-> c12], [ids |-> <<>>, c |-> c0] >>)
Pts == { [v \in {1, 2} |-> IF v = 1 THEN R(x) ELSE R(y)] : x \in (b1.lo[1])..(b1.hi[1]), y \in (b2.lo[1])..(b2.hi[1]) }
Init == c1 = Zero /\ c2 = Zero /\ c12 = Zero /\ c0 = Zero /\ b1 = [lo |-> Zero, hi |-> Zero] /\ b2 = b1 /\ phase = 0
\* two steps so that the heavy second step is spread over TLC's workers
Next == \/ phase = 0 /\ phase' = 2 /\ c1' \in Coefs /\ c2' \in Coefs /\ c12' \in {R(0), R(1)} /\ c0' \in {R(-2), R(0), R(1), <<1,2>>} /\ UNCHANGED <<b1, b2>>
        \/ phase = 2 /\ phase' = 1 /\ b1' \in Boxes /\ b2' \in Boxes /\ UNCHANGED <<c1, c2, c12, c0>>
Hull == NatHull(F, [v \in {1, 2} |-> IF v = 1 THEN b1 ELSE b2])
HullSound == phase = 1 => \A x \in Pts : In(PEval(F, x), Hull)
SlackKeepsFeasibleSet == phase = 1 =>
  LET a == ContentFactor({ F[m] : m \in DOMAIN F })  aF == PScale(F, a)
      h == NatHull(aF, [v \in {1, 2} |-> IF v = 1 THEN b1 ELSE b2])
      L == RCeil(h.lo) IN
  (L <= 0) => \A x \in Pts : RLeq(PEval(F, x), Zero) <=> \E s \in 0..(-L) : RAdd(PEval(aF, x), R(s)) = Zero
AddSlackKeepsProjection == phase = 1 =>
  LET L == Hull.lo IN
  (RLeq(L, Zero) /\ RLess(Zero, Hull.hi)) => \A ub \in 1..3 : \A x \in Pts :
      RLeq(PEval(F, x), Zero) <=> \E s \in 0..ub : RLeq(RAdd(PEval(F, x), RMul(RDiv(RNeg(L), R(ub)), R(s))), Zero)
=============================================================================
