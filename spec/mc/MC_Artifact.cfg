CONSTANT MaxLen = 4
INIT Init
NEXT Next
INVARIANTS AppendOnly TypedReads WrongKindFails UnknownFails ByKindInOrder
CHECK_DEADLOCK FALSE
