CONSTANT Depth = 2
INIT Init
NEXT Next
INVARIANTS LayoutIndependent EmptyIsDefault
CHECK_DEADLOCK FALSE
