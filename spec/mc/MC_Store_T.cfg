CONSTANT MaxOps = 5
SPECIFICATION Spec
INVARIANTS Provenance RoundTrip
PROPERTIES Immutable FailedOpsAreStuttering
CHECK_DEADLOCK FALSE
