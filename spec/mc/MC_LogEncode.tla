------------------------------- MODULE MC_LogEncode -------------------------------
(* C12: (i) the complete-sequence criterion agrees with brute force; (ii) the reference log-encoding
   (powers of two with a capped last coefficient) covers exactly 0..w. *)
EXTENDS Inst
CONSTANTS MaxCoef, MaxLen, MaxWidth
VARIABLES cs, w, phase
RECURSIVE Pow2(_)
Pow2(k) == IF k = 0 THEN 1 ELSE 2 * Pow2(k - 1)
RECURSIVE Bits(_,_)
Bits(width, k) == IF Pow2(k) >= width + 1 THEN k ELSE Bits(width, k + 1)        \* ceil(log2(width+1))
RefCoefs(width) == LET nb == Bits(width, 0) IN [ i \in 1..nb |-> IF i = nb THEN width - Pow2(i - 1) + 1 ELSE Pow2(i - 1) ]
Init == cs = <<>> /\ w = 0 /\ phase = 0
Next == \/ phase = 0 /\ phase' = 1 /\ w' = 0 /\ \E k \in 0..MaxLen : cs' \in [1..k -> 1..MaxCoef]
        \/ phase = 0 /\ phase' = 2 /\ cs' = <<>> /\ w' \in 1..MaxWidth
Criterion == phase = 1 => (CoversByCriterion(cs, SeqSum(cs)) <=> SubsetSums(cs, {0}) = 0..SeqSum(cs))
Reference == phase = 2 => /\ SubsetSums(RefCoefs(w), {0}) = 0..w
                          /\ CoversByCriterion(RefCoefs(w), w)
=============================================================================
