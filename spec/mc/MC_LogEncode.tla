------------------------------- MODULE MC_LogEncode -------------------------------
(* C12: (i) the complete-sequence criterion agrees with brute force; (ii) the reference log-encoding
   (powers of two with a capped last coefficient) covers exactly 0..w. *)
EXTENDS Inst
CONSTANTS MaxCoef, MaxLen, MaxWidth
VARIABLES cs, w, phase
\* RefCoefs (Inst.tla): powers of two with a capped last coefficient
Init == cs = <<>> /\ w = 0 /\ phase = 0
Next == \/ phase = 0 /\ phase' = 1 /\ w' = 0 /\ \E k \in 0..MaxLen : cs' \in [1..k -> 1..MaxCoef]
        \/ phase = 0 /\ phase' = 2 /\ cs' = <<>> /\ w' \in 1..MaxWidth
Criterion == phase = 1 => (CoversByCriterion(cs, SeqSum(cs)) <=> SubsetSums(cs, {0}) = 0..SeqSum(cs))
Reference == phase = 2 => /\ SubsetSums(RefCoefs(w), {0}) = 0..w
                          /\ CoversByCriterion(RefCoefs(w), w)
=============================================================================
