CONSTANT Small = TRUE
INIT Init
NEXT Next
INVARIANTS HullSound SlackKeepsFeasibleSet AddSlackKeepsProjection
CHECK_DEADLOCK FALSE
