CONSTANTS MaxOps = 3 MaxNew = 1
INIT Init
NEXT Next
INVARIANTS Conserved PenaltyOK AsMinOK RelaxedOK RoundTripOK
CHECK_DEADLOCK FALSE
