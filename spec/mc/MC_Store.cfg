CONSTANT MaxOps = 4
SPECIFICATION Spec
INVARIANTS Provenance RoundTrip
PROPERTIES Immutable FailedOpsAreStuttering
CHECK_DEADLOCK FALSE
