------------------------------- MODULE EvalDeps -------------------------------
(* Algorithm-level model of eval_dependencies (rust/ommx/src/evaluate.rs:510-539).
   Dependencies are abstracted to their reference sets: Refs[d] = ids occurring in the defining function.
   `have` = ids that currently have a value.  The value computed for d is irrelevant for termination and
   error behaviour; for confluence we track the symbolic "definition depth" instead of numbers. *)
EXTENDS Integers, Sequences, FiniteSets, SequencesExt, TLC
CONSTANTS D,        \* dependent ids
          B         \* base ids present in the input state
VARIABLES refs,     \* D -> SUBSET (D \cup B \cup {99})   (99 = an id with no value anywhere)
          bucket, notEval, lastSize, have, order, res
vars == <<refs, bucket, notEval, lastSize, have, order, res>>
AllRefs == [D -> SUBSET (D \cup B \cup {99})]
Perms(S) == { s \in [1..Cardinality(S) -> S] : \A i, j \in DOMAIN s : i # j => s[i] # s[j] }
Init == /\ refs \in AllRefs
        /\ \E p \in Perms(D) : bucket = p
        /\ notEval = <<>> /\ lastSize = Cardinality(D) /\ have = B /\ order = <<>> /\ res = "run"
\* while let Some((id,f)) = bucket.pop()
Pop == /\ res = "run" /\ bucket # <<>>
       /\ LET d == bucket[Len(bucket)] IN
          /\ bucket' = SubSeq(bucket, 1, Len(bucket) - 1)
          /\ IF refs[d] \subseteq have
             THEN have' = have \cup {d} /\ order' = Append(order, d) /\ notEval' = notEval
             ELSE notEval' = Append(notEval, d) /\ UNCHANGED <<have, order>>
       /\ UNCHANGED <<refs, lastSize, res>>
EndRound == /\ res = "run" /\ bucket = <<>>
            /\ IF notEval = <<>> THEN res' = "ok" /\ UNCHANGED <<bucket, notEval, lastSize>>
               ELSE IF lastSize = Len(notEval) THEN res' = "err" /\ UNCHANGED <<bucket, notEval, lastSize>>
               ELSE lastSize' = Len(notEval) /\ bucket' = notEval /\ notEval' = <<>> /\ res' = "run"
            /\ UNCHANGED <<refs, have, order>>
Next == Pop \/ EndRound
Spec == Init /\ [][Next]_vars /\ WF_vars(Next)
\* reference meaning: least fixed point of "d is computable when all its refs are"
RECURSIVE Lfp(_)
Lfp(S) == LET T == S \cup { d \in D : refs[d] \subseteq S } IN IF T = S THEN S ELSE Lfp(T)
Solvable == D \subseteq Lfp(B)
OkIffSolvable == (res = "ok" => Solvable) /\ (res = "err" => ~Solvable)
OkComplete == res = "ok" => have = B \cup D
\* every evaluated d had all its references available (so its value is the fixed-point value)
Sound == \A i \in DOMAIN order : refs[order[i]] \subseteq B \cup { order[j] : j \in 1..(i-1) }
Measure == Len(bucket) + Len(notEval) <= Cardinality(D)
Terminates == <>(res # "run")
=============================================================================
