CONSTANTS D = {1,2,3}
          B = {7,8}
SPECIFICATION Spec
INVARIANTS OkIffSolvable OkComplete Sound Measure
PROPERTY Terminates
CHECK_DEADLOCK FALSE
