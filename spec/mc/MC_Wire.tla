------------------------------- MODULE MC_Wire -------------------------------
(* C07: Decode o Encode on the specification's own codec, for every message type of the published schema:
   the decoded content does not depend on field order, injected unknown fields or packed/unpacked layout,
   unknown fields are counted exactly when injected, and nothing is mis-typed. *)
EXTENDS Wire, Json, IOUtils
CONSTANT Depth
VARIABLES T, lay, d
S == JsonDeserialize(IOEnv.SCHEMA).messages
Lays == [rev : BOOLEAN, unknown : BOOLEAN, unpacked : BOOLEAN, arm : 0..3]
Init == T \in DOMAIN S /\ lay = [rev |-> FALSE, unknown |-> FALSE, unpacked |-> FALSE, arm |-> 0] /\ d = 0
Next == d = 0 /\ d' \in 1..Depth /\ lay' \in Lays /\ UNCHANGED T
Plain(l) == [l EXCEPT !.rev = FALSE, !.unknown = FALSE, !.unpacked = FALSE]
LayoutIndependent == d > 0 =>
  LET b == MsgBytes(S, T, d, lay)  b0 == MsgBytes(S, T, d, Plain(lay))
      t == Decode(S, T, b)  t0 == Decode(S, T, b0) IN
  /\ Strip(S, T, t) = Strip(S, T, t0)
  /\ t.bad = 0 /\ t0.bad = 0 /\ t0.ut = 0 /\ (lay.unknown <=> t.ut > 0)
  /\ (S[T] # <<>> => Len(t0.fields) >= 1)
EmptyIsDefault == Decode(S, T, <<>>).fields = <<>>
=============================================================================
