------------------------------- MODULE MC_Validate -------------------------------
(* C08 on the specification itself, over the fault state machine of Gen_Validate (every single fault and every
   ordered pair of faults of the base instances):
     - the base instances are well-formed;
     - the typed conversion's requirements include validate()'s: TypedFaults(raw) = {} => ValidateOK(raw);
     - every fault action really violates a rule (so the rejecting side is exercised), except the variations
       that are meant to stay well-formed;
     - each reported path starts at ommx.v1.Instance (or is the instance-level MissingField). *)
EXTENDS Gen_Validate, Validate
RawOfVec == IF vec.ev = "pvalidate" THEN vec.in.pinst ELSE vec.in.inst
\* (Base3 carries a removed entry without a body: valid for validate(), one MissingField for the typed conversion)
BasesOK == /\ \A b \in Bases : ValidateOK(b)
           /\ \A b \in Bases \ {Base3} : TypedFaults(b) = {}
           /\ TypedFaults(Base3) # {}
TypedImpliesValid == (phase = 1 /\ vec.ev = "typed") => (TypedFaults(RawOfVec) = {} => ValidateOK(RawOfVec))
PathsRooted == (phase = 1 /\ vec.ev = "typed") =>
   \A f \in TypedFaults(RawOfVec) : (f[2] = <<>> /\ f[1] = "MissingField") \/ (f[2] # <<>> /\ f[2][1][1] = MI)
Benign(f) == f.t \in {"none", "hint_on_removed"} \/ (f.t = "bound" /\ f.w \in {"point", "zero", "negzero", "absent", "free"})
SingleFaultsBite == \A b \in Bases : \A f \in Faults(b) : (Applicable(b, f) /\ ~Benign(f)) => TypedFaults(Apply(b, f)) # {}
ValidateFaultsBite == \A b \in Bases : \A f \in Faults(b) :
   (Applicable(b, f) /\ (f.t \in {"dupvar", "dupcon"} \/ (f.t = "undef" /\ f.w \in {"objective", "con", "rem"}))) => ~ValidateOK(Apply(b, f))
=============================================================================
