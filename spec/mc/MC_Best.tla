------------------------------- MODULE MC_Best -------------------------------
(* C15: the relation BestOK is well defined on every small sample set: an acceptable answer exists, it is an
   error exactly when no sample is feasible, all acceptable ids have the same objective, and the current and
   the legacy field layout of the same logical sample set accept the same answers. *)
EXTENDS JudgeInst
VARIABLES objs, rel, all, sense, phase
Sids == {0, 3, 7}
Init == objs = <<>> /\ rel = <<>> /\ all = <<>> /\ sense = "min" /\ phase = 0
Next == phase = 0 /\ phase' = 1 /\ \E S \in SUBSET Sids : S # {} /\ objs' \in [S -> {R(0), R(1)}] /\ rel' \in [S -> BOOLEAN]
          /\ all' \in { a \in [S -> BOOLEAN] : \A s \in S : a[s] => rel'[s] } /\ sense' \in {"min", "max"}
Pairs(f) == [ k \in DOMAIN SortSeq(SetToSeq(DOMAIN f), LAMBDA x, y : x < y) |-> LET s == SortSeq(SetToSeq(DOMAIN f), LAMBDA x, y : x < y)[k] IN <<s, f[s]>> ]
Sv == [ k \in DOMAIN Pairs(objs) |-> [value |-> Pairs(objs)[k][2], ids |-> << Pairs(objs)[k][1] >>] ]
Current == [objectives |-> <<Sv>>, feasible |-> Pairs(all), feasible_relaxed |-> Pairs(rel), feasible_unrelaxed |-> <<>>, sense |-> sense]
Legacy == [objectives |-> <<Sv>>, feasible |-> Pairs(rel), feasible_relaxed |-> <<>>, feasible_unrelaxed |-> Pairs(all), sense |-> sense]
Answers == { [tag |-> "err", id |-> 0] } \cup { [tag |-> "ok", id |-> s] : s \in Sids }
Acc(ss, tab) == { r \in Answers : BestOK(ss, tab, r) }
WellDefined == phase = 1 =>
  /\ Acc(Current, SSRelaxed(Current)) # {} /\ Acc(Current, SSUnrelaxed(Current)) # {}
  /\ (\E r \in Acc(Current, SSRelaxed(Current)) : r.tag = "err") <=> (\A s \in DOMAIN rel : ~rel[s])
  /\ \A r1, r2 \in Acc(Current, SSUnrelaxed(Current)) : r1.tag = r2.tag /\ (r1.tag = "ok" => objs[r1.id] = objs[r2.id])
  /\ \A r \in Acc(Current, SSUnrelaxed(Current)) : r.tag = "ok" => (all[r.id] /\ \A s \in DOMAIN all : all[s] =>
         (IF sense = "min" THEN RLeq(objs[r.id], objs[s]) ELSE RLeq(objs[s], objs[r.id])))
  /\ DOMAIN rel # {} => (Acc(Legacy, SSRelaxed(Legacy)) = Acc(Current, SSRelaxed(Current)) /\ Acc(Legacy, SSUnrelaxed(Legacy)) = Acc(Current, SSUnrelaxed(Current)))
=============================================================================
