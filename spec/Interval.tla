------------------------------- MODULE Interval -------------------------------
(* Intervals over extended rationals: [lo |-> x, hi |-> y].  A VALID interval has no NaN, lo # +inf,
   hi # -inf and lo <= hi (the invariant of ommx::Bound).  The Hull* operators give the EXACT range
   (closure) of the pointwise operation; an implementation is sound iff its result encloses the hull. *)
EXTENDS Rat, FiniteSets, TLC
WellTyped(b) == IsNum(b.lo) /\ IsNum(b.hi)
Valid(b) == WellTyped(b) /\ b.lo # PInf /\ b.hi # NInf /\ XLeq(b.lo, b.hi)
XMin(a, b) == IF XLeq(a, b) THEN a ELSE b
XMax(a, b) == IF XLeq(a, b) THEN b ELSE a
XMinSet(S) == CHOOSE x \in S : \A y \in S : XLeq(x, y)
XMaxSet(S) == CHOOSE x \in S : \A y \in S : XLeq(y, x)
\* extended arithmetic on endpoints; 0 * inf = 0 (interval convention); inf + (-inf) never arises for hulls
XAdd(a, b) == IF a[2] = 0 THEN a ELSE IF b[2] = 0 THEN b ELSE RAdd(a, b)
XMul(a, b) == IF a = Zero \/ b = Zero THEN Zero
              ELSE IF a[2] = 0 \/ b[2] = 0 THEN (IF RSign(a) * RSign(b) > 0 THEN PInf ELSE NInf)
              ELSE RMul(a, b)
Unbounded == [lo |-> NInf, hi |-> PInf]
Point(x) == [lo |-> x, hi |-> x]
HullAdd(a, b) == [lo |-> XAdd(a.lo, b.lo), hi |-> XAdd(a.hi, b.hi)]
HullMul(a, b) == LET c == { XMul(a.lo, b.lo), XMul(a.lo, b.hi), XMul(a.hi, b.lo), XMul(a.hi, b.hi) }
                 IN [lo |-> XMinSet(c), hi |-> XMaxSet(c)]
HullScale(a, k) == IF RSign(k) > 0 THEN [lo |-> XMul(a.lo, k), hi |-> XMul(a.hi, k)]
                   ELSE [lo |-> XMul(a.hi, k), hi |-> XMul(a.lo, k)]                       \* k # 0
HullShift(a, k) == [lo |-> XAdd(a.lo, k), hi |-> XAdd(a.hi, k)]
HullUnion(a, b) == [lo |-> XMin(a.lo, b.lo), hi |-> XMax(a.hi, b.hi)]
RECURSIVE XPow(_,_)
XPow(x, n) == IF n = 0 THEN One ELSE XMul(x, XPow(x, n-1))
HullPow(a, n) ==
  IF n = 0 THEN [lo |-> One, hi |-> One]
  ELSE IF n % 2 = 1 THEN [lo |-> XPow(a.lo, n), hi |-> XPow(a.hi, n)]
  ELSE IF XLeq(Zero, a.lo) THEN [lo |-> XPow(a.lo, n), hi |-> XPow(a.hi, n)]
  ELSE IF XLeq(a.hi, Zero) THEN [lo |-> XPow(a.hi, n), hi |-> XPow(a.lo, n)]
  ELSE [lo |-> Zero, hi |-> XMax(XPow(a.lo, n), XPow(a.hi, n))]
Encloses(out, h) == Valid(out) /\ XLeq(out.lo, h.lo) /\ XLeq(h.hi, out.hi)
In(x, b) == XLeq(b.lo, x) /\ XLeq(x, b.hi)
\* value inside the bound up to the SDK's absolute tolerance 1e-7 (check_bound)
InTol7(x, b) == /\ (b.lo[2] = 0 \/ RLeqE7(RSub(b.lo, x)))
                /\ (b.hi[2] = 0 \/ RLeqE7(RSub(x, b.hi)))
NearestToZero(b) == IF XLeq(Zero, b.lo) THEN b.lo ELSE IF XLeq(b.hi, Zero) THEN b.hi ELSE Zero
\* integers of an interval
HasInteger(b) == b.lo[2] = 0 \/ b.hi[2] = 0 \/ RCeil(b.lo) <= RFloor(b.hi)
IsIntegral(x) == x[2] = 0 \/ x[2] = 1
\* out is an integer rounding of a that keeps every integer of a
\* ... with the magnitude tokens <<+-1,-30>> = +-1e30 (integers far beyond i64) ordered between the finite domain and the
\* infinities:  -inf < -1e30 < every finite trace number < 1e30 < +inf
IsBig(x) == x[2] = -30
BRank(x) == IF x[2] = 0 THEN 2 * x[1] ELSE IF IsBig(x) THEN x[1] ELSE 0
BLeq(x, y) == IF BRank(x) = 0 /\ BRank(y) = 0 THEN XLeq(x, y) ELSE BRank(x) <= BRank(y)
IntRoundBig(a, out) ==
  LET ok(x) == x[2] \in {0, 1} \/ IsBig(x)
      ceilB(x) == IF IsBig(x) THEN x ELSE R(RCeil(x))
      floorB(x) == IF IsBig(x) THEN x ELSE R(RFloor(x)) IN
  /\ ok(out.lo) /\ ok(out.hi) /\ out.lo # NaN /\ out.hi # NaN /\ BLeq(out.lo, out.hi) /\ out.lo # PInf /\ out.hi # NInf
  /\ (IF a.lo[2] = 0 THEN out.lo = NInf ELSE BLeq(out.lo, ceilB(a.lo)))
  /\ (IF a.hi[2] = 0 THEN out.hi = PInf ELSE BLeq(floorB(a.hi), out.hi))
IntRoundOK(a, out) ==
  IF IsBig(a.lo) \/ IsBig(a.hi) \/ IsBig(out.lo) \/ IsBig(out.hi) THEN IntRoundBig(a, out) ELSE
  /\ Valid(out) /\ IsIntegral(out.lo) /\ IsIntegral(out.hi)
  /\ (IF a.lo[2] = 0 THEN out.lo = NInf ELSE XLeq(out.lo, R(RCeil(a.lo))))
  /\ (IF a.hi[2] = 0 THEN out.hi = PInf ELSE XLeq(R(RFloor(a.hi)), out.hi))
=============================================================================
