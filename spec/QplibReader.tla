------------------------------- MODULE QplibReader -------------------------------
(* An OPERATIONAL specification of reading a QPLIB file: a cursor moves down the file line by line; which section
   comes next is driven by the three-letter problem type read at the beginning; comment and blank lines are
   skipped but counted, so that an error carries the number of the offending line.  mc/MC_QplibReader checks that
   running this machine on the file rendered for a model (QplibText!QRender) rebuilds exactly that model -- for
   every problem type -- and that every injected fault stops it at the line QplibText!QRenderFault predicts.

   A file is a sequence of lines [skip |-> BOOLEAN (comment / blank), toks |-> tokens].  Numbers are parsed with a
   token table built from the model (TLC cannot parse strings). *)
EXTENDS QplibText
\* ---- token-level rendering, same layout as QRender ---------------------------------------------------------------
TL(ws) == [skip |-> FALSE, toks |-> ws]
CL == [skip |-> TRUE, toks |-> <<"!">>]
SecT(def, entries, F(_)) == << TL(<<Dec(def)>>), TL(<<ToString(Len(entries))>>) >> \o [ k \in DOMAIN entries |-> F(entries[k]) ]
IVT(e) == TL(<<ToString(e[1]), Dec(e[2])>>)
QRenderT(q, comments) ==
  LET cm == IF comments THEN << CL >> ELSE <<>> IN
     << TL(<<q.name>>) >> \o cm \o << TL(<<q.o \o q.v \o q.c>>), TL(<<q.sense>>), TL(<<ToString(q.n)>>) >>
     \o (IF HasCons(q) THEN << TL(<<ToString(q.m)>>) >> ELSE <<>>)
     \o (IF q.o # "L" THEN << TL(<<ToString(Len(q.q0))>>) >> \o [ k \in DOMAIN q.q0 |-> TL(<<ToString(q.q0[k][1]), ToString(q.q0[k][2]), Dec(q.q0[k][3])>>) ] ELSE <<>>)
     \o << TL(<<Dec(q.b0def)>>), TL(<<ToString(Len(q.b0))>>) >> \o [ k \in DOMAIN q.b0 |-> IVT(q.b0[k]) ] \o cm
     \o << TL(<<Dec(q.q0const)>>) >>
     \o (IF q.c \in {"D", "C", "Q"} THEN << TL(<<ToString(Len(q.qi))>>) >> \o [ k \in DOMAIN q.qi |-> TL(<<ToString(q.qi[k][1]), ToString(q.qi[k][2]), ToString(q.qi[k][3]), Dec(q.qi[k][4])>>) ] ELSE <<>>)
     \o (IF HasCons(q) THEN << TL(<<ToString(Len(q.bi))>>) >> \o [ k \in DOMAIN q.bi |-> TL(<<ToString(q.bi[k][1]), ToString(q.bi[k][2]), Dec(q.bi[k][3])>>) ] ELSE <<>>)
     \o << TL(<<Dec(q.inf)>>) >>
     \o (IF HasCons(q) THEN SecT(q.cldef, q.cl, IVT) \o SecT(q.cudef, q.cu, IVT) ELSE <<>>)
     \o (IF q.v # "B" THEN SecT(q.ldef, q.l, IVT) \o SecT(q.udef, q.u, IVT) ELSE <<>>)
     \o (IF q.v \in {"M", "G"} THEN << TL(<<ToString(q.tdef)>>), TL(<<ToString(Len(q.t))>>) >> \o [ k \in DOMAIN q.t |-> TL(<<ToString(q.t[k][1]), ToString(q.t[k][2])>>) ] ELSE <<>>)
     \o << TL(<<"0">>), TL(<<"0">>) >> \o cm
     \o (IF HasCons(q) THEN << TL(<<"0">>), TL(<<"0">>) >> ELSE <<>>)
     \o << TL(<<"0">>), TL(<<"0">>) >>
     \o << TL(<<ToString(Len(q.vnames))>>) >> \o [ k \in DOMAIN q.vnames |-> TL(<<ToString(q.vnames[k][1]), q.vnames[k][2]>>) ]
     \o << TL(<<ToString(Len(q.cnames))>>) >> \o [ k \in DOMAIN q.cnames |-> TL(<<ToString(q.cnames[k][1]), q.cnames[k][2]>>) ]
\* ---- the reader --------------------------------------------------------------------------------------------------
\* the program of sections for a problem type: <<kind, field>>  kinds: "one" (a single value), "list" (count + entries),
\* "deflist" (default, count, entries), "skipdeflist" (read and ignored)
Program(o, v, c) ==
  LET hc == c \notin {"N", "B"} IN
     << <<"one", "n">> >> \o (IF hc THEN << <<"one", "m">> >> ELSE <<>>)
     \o (IF o # "L" THEN << <<"list", "q0">> >> ELSE <<>>)
     \o << <<"deflist", "b0">>, <<"one", "q0const">> >>
     \o (IF c \in {"D", "C", "Q"} THEN << <<"list", "qi">> >> ELSE <<>>)
     \o (IF hc THEN << <<"list", "bi">> >> ELSE <<>>)
     \o << <<"one", "inf">> >>
     \o (IF hc THEN << <<"deflist", "cl">>, <<"deflist", "cu">> >> ELSE <<>>)
     \o (IF v # "B" THEN << <<"deflist", "l">>, <<"deflist", "u">> >> ELSE <<>>)
     \o (IF v \in {"M", "G"} THEN << <<"deflist", "t">> >> ELSE <<>>)
     \o << <<"skipdeflist", "x0">> >> \o (IF hc THEN << <<"skipdeflist", "y0">> >> ELSE <<>>) \o << <<"skipdeflist", "z0">> >>
     \o << <<"list", "vnames">>, <<"list", "cnames">> >>
VARIABLES qfile, qnums, ln, stage, prog, remaining, acc, qerr, errline
qvars == <<qfile, qnums, ln, stage, prog, remaining, acc, qerr, errline>>
\* stage: "name" | "type" | "sense" | "prog" (working through prog) | "done"
\* within prog: remaining = -2: at the start of the section; -1: default read, count expected; k >= 0: k entries left
EmptyAcc == [name |-> "", o |-> "", v |-> "", c |-> "", sense |-> "", n |-> 0, m |-> 0, q0 |-> <<>>, b0def |-> Zero, b0 |-> <<>>, q0const |-> Zero,
             qi |-> <<>>, bi |-> <<>>, inf |-> Zero, cldef |-> Zero, cl |-> <<>>, cudef |-> Zero, cu |-> <<>>, ldef |-> Zero, l |-> <<>>,
             udef |-> Zero, u |-> <<>>, tdef |-> 0, t |-> <<>>, vnames |-> <<>>, cnames |-> <<>>]
QCur == qfile[ln]
IsIntTok(tok) == tok \in { ToString(k) : k \in 0..40 }
IntOf(tok) == CHOOSE k \in 0..40 : ToString(k) = tok
IsQNum(tok) == tok \in DOMAIN qnums
QFail(line) == qerr' = TRUE /\ errline' = line /\ UNCHANGED <<qfile, qnums, ln, stage, prog, remaining, acc>>
QAdv == ln' = ln + 1 /\ UNCHANGED <<qfile, qnums>>
Eof == /\ ~qerr /\ stage # "done" /\ ln > Len(qfile) /\ QFail(Len(qfile))      \* "unexpected end of file" at the last line read
Skip == /\ ~qerr /\ stage # "done" /\ ln <= Len(qfile) /\ QCur.skip /\ QAdv /\ UNCHANGED <<stage, prog, remaining, acc, qerr, errline>>
ReadName == /\ ~qerr /\ stage = "name" /\ ln <= Len(qfile) /\ ~QCur.skip
            /\ acc' = [acc EXCEPT !.name = QCur.toks[1]] /\ stage' = "type" /\ QAdv /\ UNCHANGED <<prog, remaining, qerr, errline>>
Letters(s) == { <<a, b, c>> \in {"L", "D", "C", "Q"} \X {"C", "B", "M", "I", "G"} \X {"N", "B", "L", "D", "C", "Q"} : a \o b \o c = s }
ReadType == /\ ~qerr /\ stage = "type" /\ ln <= Len(qfile) /\ ~QCur.skip
            /\ IF Letters(QCur.toks[1]) = {} THEN QFail(ln)
               ELSE LET t == CHOOSE x \in Letters(QCur.toks[1]) : TRUE IN
                    /\ acc' = [acc EXCEPT !.o = t[1], !.v = t[2], !.c = t[3]] /\ stage' = "sense" /\ prog' = Program(t[1], t[2], t[3])
                    /\ QAdv /\ UNCHANGED <<remaining, qerr, errline>>
ReadSense == /\ ~qerr /\ stage = "sense" /\ ln <= Len(qfile) /\ ~QCur.skip
             /\ IF QCur.toks[1] \notin {"minimize", "maximize"} THEN QFail(ln)
                ELSE acc' = [acc EXCEPT !.sense = QCur.toks[1]] /\ stage' = "prog" /\ remaining' = -2 /\ QAdv /\ UNCHANGED <<prog, qerr, errline>>
NextSection == IF Len(prog) = 1 THEN stage' = "done" /\ prog' = <<>> /\ remaining' = -2
               ELSE stage' = "prog" /\ prog' = Tail(prog) /\ remaining' = -2
NumTok(tok) == IF IsQNum(tok) THEN qnums[tok] ELSE Zero
Entry(field, w) ==
  CASE field = "q0" -> <<IntOf(w[1]), IntOf(w[2]), NumTok(w[3])>>
    [] field = "qi" -> <<IntOf(w[1]), IntOf(w[2]), IntOf(w[3]), NumTok(w[4])>>
    [] field = "bi" -> <<IntOf(w[1]), IntOf(w[2]), NumTok(w[3])>>
    [] field \in {"vnames", "cnames"} -> <<IntOf(w[1]), w[2]>>
    [] field = "t" -> <<IntOf(w[1]), IntOf(w[2])>>
    [] OTHER -> <<IntOf(w[1]), NumTok(w[2])>>
EntryOK(field, w) ==
  CASE field = "q0" -> Len(w) >= 3 /\ IsIntTok(w[1]) /\ IsIntTok(w[2]) /\ IsQNum(w[3])
    [] field = "qi" -> Len(w) >= 4 /\ IsIntTok(w[1]) /\ IsIntTok(w[2]) /\ IsIntTok(w[3]) /\ IsQNum(w[4])
    [] field = "bi" -> Len(w) >= 3 /\ IsIntTok(w[1]) /\ IsIntTok(w[2]) /\ IsQNum(w[3])
    [] field \in {"vnames", "cnames"} -> Len(w) >= 2 /\ IsIntTok(w[1])
    [] field = "t" -> Len(w) >= 2 /\ IsIntTok(w[1]) /\ w[2] \in {"0", "1", "2"}
    [] OTHER -> Len(w) >= 2 /\ IsIntTok(w[1]) /\ IsQNum(w[2])
SetField(a, field, val) ==
  CASE field = "n" -> [a EXCEPT !.n = val] [] field = "m" -> [a EXCEPT !.m = val] [] field = "q0const" -> [a EXCEPT !.q0const = val]
    [] field = "inf" -> [a EXCEPT !.inf = val] [] field = "b0" -> [a EXCEPT !.b0def = val] [] field = "cl" -> [a EXCEPT !.cldef = val]
    [] field = "cu" -> [a EXCEPT !.cudef = val] [] field = "l" -> [a EXCEPT !.ldef = val] [] field = "u" -> [a EXCEPT !.udef = val]
    [] field = "t" -> [a EXCEPT !.tdef = val] [] OTHER -> a
AppendField(a, field, e) ==
  CASE field = "q0" -> [a EXCEPT !.q0 = Append(@, e)] [] field = "qi" -> [a EXCEPT !.qi = Append(@, e)] [] field = "bi" -> [a EXCEPT !.bi = Append(@, e)]
    [] field = "b0" -> [a EXCEPT !.b0 = Append(@, e)] [] field = "cl" -> [a EXCEPT !.cl = Append(@, e)] [] field = "cu" -> [a EXCEPT !.cu = Append(@, e)]
    [] field = "l" -> [a EXCEPT !.l = Append(@, e)] [] field = "u" -> [a EXCEPT !.u = Append(@, e)] [] field = "t" -> [a EXCEPT !.t = Append(@, e)]
    [] field = "vnames" -> [a EXCEPT !.vnames = Append(@, e)] [] field = "cnames" -> [a EXCEPT !.cnames = Append(@, e)] [] OTHER -> a
IntField(field) == field \in {"n", "m", "t"}
ReadProg ==
  /\ ~qerr /\ stage = "prog" /\ ln <= Len(qfile) /\ ~QCur.skip
  /\ LET kind == prog[1][1]  field == prog[1][2]  w == QCur.toks IN
     IF kind = "one" THEN
        IF (IntField(field) /\ ~IsIntTok(w[1])) \/ (~IntField(field) /\ ~IsQNum(w[1])) THEN QFail(ln)
        ELSE acc' = SetField(acc, field, IF IntField(field) THEN IntOf(w[1]) ELSE qnums[w[1]]) /\ NextSection /\ QAdv /\ UNCHANGED <<qerr, errline>>
     ELSE IF kind \in {"deflist", "skipdeflist"} /\ remaining = -2 THEN        \* the default value
        IF (IntField(field) /\ ~IsIntTok(w[1])) \/ (~IntField(field) /\ ~IsQNum(w[1])) THEN QFail(ln)
        ELSE acc' = (IF kind = "deflist" THEN SetField(acc, field, IF IntField(field) THEN IntOf(w[1]) ELSE qnums[w[1]]) ELSE acc)
             /\ remaining' = -1 /\ QAdv /\ UNCHANGED <<stage, prog, qerr, errline>>
     ELSE IF (kind = "list" /\ remaining = -2) \/ remaining = -1 THEN            \* the count
        IF ~IsIntTok(w[1]) THEN QFail(ln)
        ELSE IF IntOf(w[1]) = 0 THEN NextSection /\ QAdv /\ UNCHANGED <<acc, qerr, errline>>
        ELSE remaining' = IntOf(w[1]) /\ QAdv /\ UNCHANGED <<stage, prog, acc, qerr, errline>>
     ELSE                                                                       \* an entry
        IF ~EntryOK(field, w) THEN QFail(ln)
        ELSE /\ acc' = (IF kind = "skipdeflist" THEN acc ELSE AppendField(acc, field, Entry(field, w)))
             /\ (IF remaining = 1 THEN NextSection ELSE remaining' = remaining - 1 /\ UNCHANGED <<stage, prog>>)
             /\ QAdv /\ UNCHANGED <<qerr, errline>>
QNext == Skip \/ Eof \/ ReadName \/ ReadType \/ ReadSense \/ ReadProg
QFinished == qerr \/ stage = "done"
\* the model rebuilt from the accumulated tables (sections that the type code omits keep the model's conventions)
Rebuilt(q) == [acc EXCEPT !.m = IF HasCons(q) THEN @ ELSE 0]
QNumTable(q) ==
  LET vals == { q.b0def, q.q0const, q.inf, q.cldef, q.cudef, q.ldef, q.udef }
              \cup { q.q0[k][3] : k \in DOMAIN q.q0 } \cup { q.b0[k][2] : k \in DOMAIN q.b0 } \cup { q.qi[k][4] : k \in DOMAIN q.qi }
              \cup { q.bi[k][3] : k \in DOMAIN q.bi } \cup { q.cl[k][2] : k \in DOMAIN q.cl } \cup { q.cu[k][2] : k \in DOMAIN q.cu }
              \cup { q.l[k][2] : k \in DOMAIN q.l } \cup { q.u[k][2] : k \in DOMAIN q.u } \cup {Zero}
  IN [ tok \in { Dec(x) : x \in vals } |-> CHOOSE x \in vals : Dec(x) = tok ]
=============================================================================
