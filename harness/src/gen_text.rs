//! Seeded random abstract MODELS of MPS / QPLIB files (the specification renders them and gives their meaning)
//! and random linear instances for the MPS round trip.
use crate::gen::q;
use crate::num::Rng;
use serde_json::{json, Value};

fn val(r: &mut Rng) -> Value {
    let vals: [(i64, i64); 9] = [(-3, 1), (-2, 1), (-1, 1), (1, 1), (2, 1), (5, 1), (1, 2), (-3, 2), (5, 4)];
    let (p, d) = *r.pick(&vals);
    json!([p, d])
}
fn opt(r: &mut Rng) -> Value {
    if r.chance(1, 3) { json!([]) } else { json!([val(r)]) }
}
fn bounds(r: &mut Rng) -> Value {
    let b = |t: &str, v: Option<(i64, i64)>| json!({"type": t, "val": match v { Some((p, d)) => json!([[p, d]]), None => json!([]) }});
    let sc: Vec<Vec<Value>> = vec![
        vec![], vec![b("UP", Some((4, 1)))], vec![b("UP", Some((-2, 1)))], vec![b("LO", Some((1, 1)))], vec![b("LO", Some((-3, 1)))],
        vec![b("LO", Some((1, 1))), b("UP", Some((4, 1)))], vec![b("UP", Some((4, 1))), b("LO", Some((1, 1)))], vec![b("FX", Some((2, 1)))],
        vec![b("MI", None)], vec![b("MI", None), b("UP", Some((3, 1)))], vec![b("PL", None)], vec![b("FR", None)], vec![b("BV", None)],
        vec![b("LI", Some((-2, 1)))], vec![b("UI", Some((5, 1)))], vec![b("LI", Some((0, 1))), b("UI", Some((1, 1)))], vec![b("UP", Some((1, 1)))],
        vec![b("UP", Some((5, 2))), b("LO", Some((-1, 4)))], vec![b("LO", Some((-4, 1))), b("UP", Some((-1, 1)))],
    ];
    if r.chance(1, 2) {
        return json!(sc[r.below(sc.len() as u64) as usize]);
    }
    // a lower-type and/or an upper-type directive in either order, values on both sides of 0 and 0 itself
    let vals = [(-2, 1), (0, 1), (1, 1), (4, 1), (5, 2), (-1, 4)];
    let lower = match r.below(4) {
        0 => None,
        1 => Some(b("MI", None)),
        2 => Some(b("LO", Some(*r.pick(&vals)))),
        _ => Some(b("LI", Some(*r.pick(&vals[..4])))),
    };
    let upper = match r.below(4) {
        0 => None,
        1 => Some(b("PL", None)),
        2 => Some(b("UP", Some(*r.pick(&vals)))),
        _ => Some(b("UI", Some(*r.pick(&vals[..4])))),
    };
    let mut v: Vec<Value> = lower.into_iter().chain(upper).collect();
    if r.chance(1, 2) {
        v.reverse();
    }
    json!(v)
}
pub fn generate(group: &str, r: &mut Rng, n: usize) -> Option<Vec<Value>> {
    let mut out = Vec::new();
    match group {
        "mps_models" => {
            for _ in 0..n {
                let nr = r.below(6) as usize;
                let nc = 1 + r.below(6) as usize;
                let rows: Vec<Value> = (1..=nr)
                    .map(|i| {
                        let range = match r.below(5) { 0 => json!([[2, 1]]), 1 => json!([[-1, 1]]), 2 => json!([[3, 2]]), _ => json!([]) };
                        json!({"name": format!("r{i}"), "type": *r.pick(&["E", "L", "G"]), "rhs": opt(r), "range": range})
                    })
                    .collect();
                let cols: Vec<Value> = (1..=nc)
                    .map(|j| {
                        let mut coefs = vec![];
                        for i in 1..=nr {
                            if r.chance(1, 2) { coefs.push(json!([i, val(r)])); }
                        }
                        let mut obj = opt(r);
                        if coefs.is_empty() && obj.as_array().unwrap().is_empty() { obj = json!([[1, 1]]); }
                        json!({"name": format!("c{j}"), "int": r.chance(1, 2), "obj": obj, "coefs": coefs, "bounds": bounds(r)})
                    })
                    .collect();
                let model = json!({"name": "prob", "sense": *r.pick(&["absent", "MIN", "MAX"]), "senseOwnLine": r.chance(1, 2),
                    "objName": *r.pick(&["COST", "obj", "OBJ", "Z"]), "objRhs": opt(r), "rows": rows, "cols": cols});
                out.push(json!({"model": model, "layout": {"two": r.chance(1, 2), "comments": r.chance(1, 2), "blank": r.chance(1, 2)},
                    "via": *r.pick(&["raw", "raw", "zipped", "file"])}));
            }
        }
        "qplib_models" => {
            for _ in 0..n {
                let nv = 1 + r.below(5) as usize;
                let o = *r.pick(&["L", "D", "C", "Q"]);
                let v = *r.pick(&["C", "B", "M", "I", "G"]);
                let c = *r.pick(&["N", "B", "L", "D", "C", "Q"]);
                // (a code with general constraints may still declare 0 of them)
                let m = if c == "N" || c == "B" { 0 } else if r.chance(1, 8) { 0 } else { 1 + r.below(4) as usize };
                out.push(qplib_model(r, o, v, c, nv, m));
            }
        }
        "mps_roundtrip" => {
            for k in 0..n {
                out.push(roundtrip_event(r, k));
            }
        }
        _ => return None,
    }
    Some(out)
}
fn ival(r: &mut Rng) -> Value {
    let vals: [(i64, i64); 8] = [(-3, 1), (-1, 1), (1, 1), (2, 1), (4, 1), (1, 2), (-5, 2), (3, 4)];
    let (p, d) = *r.pick(&vals);
    json!([p, d])
}
pub fn qplib_model(r: &mut Rng, o: &str, v: &str, c: &str, n: usize, m: usize) -> Value {
    let mut q0 = vec![];
    for i in 1..=n {
        for j in 1..=i {
            if r.chance(1, 3) { q0.push(json!([i, j, ival(r)])); }
        }
    }
    let mut b0 = vec![];
    for i in 1..=n { if r.chance(1, 3) { b0.push(json!([i, ival(r)])); } }
    let mut qi = vec![];
    let mut bi = vec![];
    for k in 1..=m {
        for i in 1..=n {
            for j in 1..=i { if r.chance(1, 5) { qi.push(json!([k, i, j, ival(r)])); } }
            if r.chance(1, 2) { bi.push(json!([k, i, ival(r)])); }
        }
    }
    // the sparse sections may list their entries in any order (e.g. column by column)
    if r.chance(1, 2) {
        r.shuffle(&mut qi);
        r.shuffle(&mut bi);
    }
    let inf = 1000;
    let side = |r: &mut Rng| -> Value { match r.below(5) { 0 => json!([inf, 1]), 1 => json!([-inf, 1]), 2 => json!([2 * inf, 1]), _ => ival(r) } };
    let mut list = |r: &mut Rng, len: usize, f: &dyn Fn(&mut Rng) -> Value| -> Vec<Value> {
        let mut v = vec![];
        for i in 1..=len { if r.chance(1, 3) { v.push(json!([i, f(r)])); } }
        v
    };
    let cl = list(r, m, &side);
    let cu = list(r, m, &side);
    let lo = |r: &mut Rng| -> Value { match r.below(5) { 0 => json!([-inf, 1]), 1 => json!([-2 * inf, 1]), _ => q(r.range(-3, 0), 1) } };
    let hi = |r: &mut Rng| -> Value { match r.below(5) { 0 => json!([inf, 1]), _ => q(r.range(0, 4), 1) } };
    let l = list(r, n, &lo);
    let u = list(r, n, &hi);
    let mut t = vec![];
    for i in 1..=n { if r.chance(1, 2) { t.push(json!([i, r.below(3)])); } }
    let mut vnames = vec![];
    for i in 1..=n { if r.chance(1, 2) { vnames.push(json!([i, format!("v{i}")])); } }
    let mut cnames = vec![];
    for i in 1..=m { if r.chance(1, 2) { cnames.push(json!([i, format!("k{i}")])); } }
    let cldef = match r.below(3) { 0 => json!([-inf, 1]), _ => ival(r) };
    let cudef = match r.below(3) { 0 => json!([inf, 1]), _ => ival(r) };
    let model = json!({"name": "QP", "o": o, "v": v, "c": c, "sense": *r.pick(&["minimize", "maximize"]), "n": n, "m": m,
        "q0": q0, "b0def": if r.chance(1, 2) { json!([0, 1]) } else { ival(r) }, "b0": b0, "q0const": ival(r),
        "qi": qi, "bi": bi, "inf": [inf, 1], "cldef": cldef, "cl": cl, "cudef": cudef, "cu": cu,
        "ldef": lo(r), "l": l, "udef": hi(r), "u": u, "tdef": r.below(3), "t": t, "vnames": vnames, "cnames": cnames});
    json!({"model": model, "layout": {"comments": r.chance(1, 2), "trailing": r.chance(1, 2)}, "via": "file"})
}
fn roundtrip_event(r: &mut Rng, k: usize) -> Value {
    // linear instances: all kinds, bounds absent / finite / half-infinite / infinite / negative, constant-only constraints,
    // non-contiguous ids, either sense; sometimes a nonlinear objective or constraint (must be refused)
    let pool = [0u64, 1, 2, 5, 9, 14];
    let nv = 1 + r.below(4) as usize;
    let mut ids = pool.to_vec();
    r.shuffle(&mut ids);
    let mut ids: Vec<u64> = ids[..nv].to_vec();
    ids.sort();
    let vars: Vec<Value> = ids.iter().map(|id| {
        let kind = *r.pick(&["continuous", "integer", "binary"]);
        let bound = match (kind, r.below(8)) {
            (_, 0) => json!([]),
            ("binary", _) => json!([{"lo": [0, 1], "hi": [1, 1]}]),
            (_, 1) => json!([{"lo": [-1, 0], "hi": [1, 0]}]),
            (_, 2) => json!([{"lo": q(r.range(-3, 1), 1), "hi": [1, 0]}]),
            (_, 3) => json!([{"lo": [-1, 0], "hi": q(r.range(-2, 3), 1)}]),
            (_, 4) => { let l = r.range(-5, -2); json!([{"lo": q(l, 1), "hi": q(l + r.range(0, 1), 1)}]) }
            _ => { let l = r.range(-2, 2); json!([{"lo": q(l, 1), "hi": q(l + r.range(0, 4), 1)}]) }
        };
        json!({"id": id, "kind": kind, "bound": bound, "fixed": [], "name": [], "subs": [], "params": [], "desc": []})
    }).collect();
    let lin = |r: &mut Rng| -> Value {
        let mut terms = vec![];
        // now and then a tiny dyadic magnitude (odd / 2^20..2^26): its shortest decimal form needs up to 17 significant digits
        let tiny = |r: &mut Rng| -> Value { let p = 2 * r.range(-8, 7) + 1; q(p, 1i64 << r.range(20, 26)) };
        for id in &ids { if r.chance(2, 3) { let c = if r.chance(1, 8) { tiny(r) } else { q(r.range(-6, 6), 2) }; terms.push(json!({"id": id, "c": c})); } }
        if terms.is_empty() && r.chance(1, 2) { json!({"kind": "constant", "c": q(r.range(-4, 4), 2)}) }
        else { json!({"kind": "linear", "terms": terms, "constant": if r.chance(1, 2) { json!([0, 1]) } else if r.chance(1, 8) { tiny(r) } else { q(r.range(-4, 4), 2) }}) }
    };
    let nonlinear = |r: &mut Rng| -> Value { json!({"kind": "quadratic", "rows": [ids[0]], "columns": [ids[ids.len() - 1]], "values": [q(r.range(1, 3), 1)], "linear": []}) };
    let bad = r.below(10);
    let objective = if bad == 0 { nonlinear(r) } else { lin(r) };
    let cpool = [0u64, 3, 4, 10, 21];
    let nc = r.below(4) as usize;
    let mut cids = cpool.to_vec();
    r.shuffle(&mut cids);
    let cons: Vec<Value> = cids[..nc].iter().enumerate().map(|(i, cid)| {
        let f = if bad == 1 && i == 0 { nonlinear(r) } else { lin(r) };
        json!({"id": cid, "eq": *r.pick(&["eq", "le"]), "f": [f], "name": [], "subs": [], "params": [], "desc": []})
    }).collect();
    json!({"ev": "mps_roundtrip", "case": format!("d-mpsrt-{k}"), "src": "drive", "in": {"inst": {
        "sense": *r.pick(&["min", "max"]), "vars": vars, "objective": [objective], "constraints": cons, "removed": [], "deps": [],
        "params": [], "hints": [], "description": [], "parameters": []}}})
}
