//! The artifact STORE as a state machine: archive files + the local registry (oci-dirs under the data dir).
//! One `store` vector = a fresh store and a history of operations; one `store_op` event per step with the FULL
//! observable state before and after (which images the registry lists, which archives exist, and the layers
//! (kind, key) each of them returns), read back through the public API only.
use crate::exec::guarded;
use ommx::artifact::{get_images, image_dir, media_types, Artifact, Builder, InstanceAnnotations, SolutionAnnotations};
use ommx::ocipkg::image::Image;
use ommx::ocipkg::ImageName;
use ommx::v1;
use serde_json::{json, Value};
use std::path::{Path, PathBuf};
use std::sync::atomic::{AtomicU64, Ordering};

static COUNTER: AtomicU64 = AtomicU64::new(0);

fn err(e: impl std::fmt::Display) -> Value {
    json!({"tag":"err","msg":format!("{e:#}")})
}
/// payloads are tiny messages that carry one integer key
fn solution_of(key: u64) -> v1::State {
    let mut s = v1::State::default();
    s.entries.insert(1, key as f64);
    s
}
fn instance_of(key: u64) -> v1::Instance {
    let mut d = v1::DecisionVariable::default();
    d.id = key;
    let mut i = v1::Instance::default();
    i.decision_variables.push(d);
    i
}
fn add_layers<B: ommx::ocipkg::image::ImageBuilder>(b: &mut Builder<B>, layers: &Value) -> anyhow::Result<()> {
    for l in layers.as_array().unwrap() {
        let key = l[1].as_u64().unwrap();
        match l[0].as_str().unwrap() {
            "solution" => b.add_solution(solution_of(key), SolutionAnnotations::default())?,
            "instance" => b.add_instance(instance_of(key), InstanceAnnotations::default())?,
            k => panic!("store layer kind {k}"),
        }
    }
    Ok(())
}
fn content<I: ommx::ocipkg::image::Image>(art: &mut Artifact<I>) -> anyhow::Result<Value> {
    let manifest = art.get_manifest()?;
    let mut out = Vec::new();
    for d in manifest.layers() {
        let digest = ommx::ocipkg::Digest::new(d.digest())?;
        if *d.media_type() == media_types::v1_solution() {
            let (s, _) = art.get_solution(&digest)?;
            out.push(json!(["solution", s.entries.get(&1).cloned().unwrap_or(-1.0) as i64]));
        } else if *d.media_type() == media_types::v1_instance() {
            let (i, _) = art.get_instance(&digest)?;
            out.push(json!(["instance", i.decision_variables.first().map(|d| d.id as i64).unwrap_or(-1)]));
        } else {
            out.push(json!(["other", -1]));
        }
    }
    Ok(Value::Array(out))
}
fn observe(files_dir: &Path) -> Value {
    // registry
    let mut images = Vec::new();
    match get_images() {
        Ok(mut names) => {
            names.sort_by_key(|n| n.to_string());
            for n in names {
                let c = guarded(|| match image_dir(&n).and_then(|p| Artifact::from_oci_dir(&p)).and_then(|mut a| content(&mut a)) {
                    Ok(c) => json!({"tag":"ok","content":c}),
                    Err(e) => err(e),
                });
                images.push(json!({"name": n.to_string(), "read": c}));
            }
        }
        Err(e) => images.push(json!({"name":"?","read":err(e)})),
    }
    // archive files
    let mut files = Vec::new();
    let mut paths: Vec<PathBuf> = std::fs::read_dir(files_dir).map(|it| it.filter_map(|e| e.ok().map(|e| e.path())).collect()).unwrap_or_default();
    paths.sort();
    for p in paths {
        let r = guarded(|| match Artifact::from_oci_archive(&p) {
            Ok(mut a) => {
                let name = match a.get_name() { Ok(n) => json!([n.to_string()]), Err(_) => json!([]) };
                match content(&mut a) {
                    Ok(c) => json!({"tag":"ok","name":name,"content":c}),
                    Err(e) => err(e),
                }
            }
            Err(e) => err(e),
        });
        files.push(json!({"path": p.file_name().unwrap().to_string_lossy(), "read": r}));
    }
    json!({"images": images, "files": files})
}

pub fn apply_store(ev: &Value) -> Vec<Value> {
    let inp = &ev["in"];
    // absolute: a relative XDG_DATA_HOME is ignored by the platform-directories lookup (it would fall back to ~/.local/share)
    let root = std::env::current_dir().expect("cwd").join(inp["dir"].as_str().unwrap()).join(format!("store-{}-{}", std::process::id(), COUNTER.fetch_add(1, Ordering::SeqCst)));
    let files_dir = root.join("files");
    let data_home = root.join("data");
    std::fs::create_dir_all(&files_dir).expect("mkdir");
    std::fs::create_dir_all(data_home.join("ommx")).expect("mkdir");
    // the local registry lives under the platform data dir: point it into the scratch store
    std::env::set_var("XDG_DATA_HOME", &data_home);
    assert!(ommx::artifact::data_dir().map(|d| d.starts_with(&data_home)).unwrap_or(false), "the scratch registry is not in effect");
    let mut outs = Vec::new();
    for (k, op) in inp["ops"].as_array().unwrap().iter().enumerate() {
        let pre = observe(&files_dir);
        let name = op["op"].as_str().unwrap();
        let r = guarded(|| {
            let res: anyhow::Result<()> = (|| match name {
                "build_archive" => {
                    let path = files_dir.join(op["path"].as_str().unwrap());
                    let mut b = match op["name"].as_array().unwrap().first() {
                        Some(n) => Builder::new_archive(path, ImageName::parse(n.as_str().unwrap())?)?,
                        None => Builder::new_archive_unnamed(path)?,
                    };
                    add_layers(&mut b, &op["layers"])?;
                    b.build()?;
                    Ok(())
                }
                "build_dir" => {
                    let mut b = Builder::new(ImageName::parse(op["name"].as_str().unwrap())?)?;
                    add_layers(&mut b, &op["layers"])?;
                    b.build()?;
                    Ok(())
                }
                "load" => {
                    let mut a = Artifact::from_oci_archive(&files_dir.join(op["path"].as_str().unwrap()))?;
                    a.load()
                }
                "save" => {
                    let dir = image_dir(&ImageName::parse(op["name"].as_str().unwrap())?)?;
                    let mut a = Artifact::from_oci_dir(&dir)?;
                    a.save(&files_dir.join(op["out"].as_str().unwrap()))
                }
                o => panic!("store op {o}"),
            })();
            match res {
                Ok(()) => json!({"tag":"ok"}),
                Err(e) => err(e),
            }
        });
        let post = observe(&files_dir);
        let mut o = r;
        o["post"] = post;
        let mut one_in = op.clone();
        one_in["pre"] = pre;
        outs.push(json!({"ev":"store_op","case":ev["case"],"step":k + 1,"src":ev["src"],"in":one_in,"out":o}));
    }
    let _ = std::fs::remove_dir_all(&root);
    outs
}
