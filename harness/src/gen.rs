//! Seeded random input generators (direction B): larger inputs and longer histories than TLC enumerates.
//! They only produce INPUT events; the same executor as for TLC-generated vectors runs them and the same
//! TLA+ judge decides them.  All numbers stay in the exact domain (small dyadics) described in DESIGN.md.
use crate::num::Rng;
use serde_json::{json, Value};

pub fn q(p: i64, den: i64) -> Value {
    // normalised [p,q], den a power of two
    let (mut p, mut d) = (p, den);
    while d > 1 && p % 2 == 0 {
        p /= 2;
        d /= 2;
    }
    json!([p, d])
}
pub struct FnGen {
    pub ids: Vec<u64>,
    pub coef_den: i64,
    pub coef_max: i64,
    pub max_terms: u64,
    pub max_deg: u64,
}
impl FnGen {
    pub fn coef(&self, r: &mut Rng) -> Value {
        if r.chance(1, 8) {
            return json!([0, 1]);
        }
        q(r.range(-self.coef_max, self.coef_max), self.coef_den)
    }
    pub fn id(&self, r: &mut Rng) -> u64 {
        *r.pick(&self.ids)
    }
    pub fn linear(&self, r: &mut Rng) -> Value {
        let n = r.below(self.max_terms + 1);
        let terms: Vec<Value> = (0..n).map(|_| json!({"id": self.id(r), "c": self.coef(r)})).collect();
        json!({"kind":"linear","terms":terms,"constant":self.coef(r)})
    }
    pub fn quadratic(&self, r: &mut Rng, nodup: bool) -> Value {
        let n = r.below(self.max_terms.min(6) + 1);
        let mut rows = vec![];
        let mut cols = vec![];
        let mut vals = vec![];
        let mut seen = std::collections::HashSet::new();
        for _ in 0..n {
            let (a, b) = (self.id(r), self.id(r));
            if nodup && !seen.insert((a, b)) {
                continue;
            }
            rows.push(a);
            cols.push(b);
            vals.push(self.coef(r));
        }
        let lin = if r.chance(1, 3) { json!([]) } else { json!([self.linear(r)]) };
        json!({"kind":"quadratic","rows":rows,"columns":cols,"values":vals,"linear":lin})
    }
    pub fn polynomial(&self, r: &mut Rng) -> Value {
        let n = r.below(self.max_terms + 1);
        let terms: Vec<Value> = (0..n)
            .map(|_| {
                let len = r.below(self.max_deg + 1);
                let ids: Vec<u64> = (0..len).map(|_| self.id(r)).collect();
                json!({"ids": ids, "c": self.coef(r)})
            })
            .collect();
        json!({"kind":"polynomial","terms":terms})
    }
    /// any wire-legal function message with degree <= max_deg
    pub fn function(&self, r: &mut Rng, allow_none: bool) -> Value {
        let k = r.below(if allow_none { 17 } else { 16 });
        match k {
            0 | 1 => json!({"kind":"constant","c":self.coef(r)}),
            2..=5 => self.linear(r),
            6..=10 if self.max_deg >= 2 => self.quadratic(r, false),
            6..=10 => self.linear(r),
            11..=15 if self.max_deg >= 2 => self.polynomial(r),
            11..=15 => self.linear(r),
            _ => json!({"kind":"none"}),
        }
    }
    pub fn state_over(&self, r: &mut Rng, ids: &[u64], den: i64, max: i64) -> Value {
        Value::Array(ids.iter().map(|i| json!([i, q(r.range(-max, max), den)])).collect())
    }
}
fn ev(name: &str, case: String, inp: Value) -> Value {
    json!({"ev": name, "case": case, "src": "drive", "in": inp})
}

pub fn generate(group: &str, seed: u64, n: usize) -> Vec<Value> {
    let mut r = Rng::new(seed ^ group.bytes().fold(0u64, |a, b| a.wrapping_mul(131).wrapping_add(b as u64)));
    let mut out = Vec::new();
    let g = FnGen { ids: vec![1, 2, 3, 5, 8, 13], coef_den: 4, coef_max: 8, max_terms: 8, max_deg: 4 };
    match group {
        "eval_fn" => {
            for k in 0..n {
                let f = g.function(&mut r, true);
                let mut ids = g.ids.clone();
                // sometimes drop one variable from the state (missing-variable failure)
                if r.chance(1, 4) {
                    let i = r.below(ids.len() as u64) as usize;
                    ids.remove(i);
                }
                let st = g.state_over(&mut r, &ids, 2, 4);
                let via = if r.chance(1, 2) { "function" } else { "typed" };
                out.push(ev("eval_fn", format!("d-eval-{k}"), json!({"f": f, "st": st, "via": via})));
            }
        }
        "partial_fn" => {
            for k in 0..n {
                let f = g.function(&mut r, true);
                let mut ids = g.ids.clone();
                ids.push(21); // an id that never occurs
                r.shuffle(&mut ids);
                let cut = r.below(ids.len() as u64 + 1) as usize;
                let st = g.state_over(&mut r, &ids[..cut], 2, 4);
                let via = if r.chance(1, 2) { "function" } else { "typed" };
                out.push(ev("partial_fn", format!("d-partial-{k}"), json!({"f": f, "st": st, "via": via})));
            }
        }
        "subst_fn" => {
            let gf = FnGen { ids: vec![1, 2, 3, 5], coef_den: 2, coef_max: 4, max_terms: 5, max_deg: 3 };
            let gr = FnGen { ids: vec![1, 2, 3, 5, 8], coef_den: 2, coef_max: 4, max_terms: 2, max_deg: 2 };
            for k in 0..n {
                let f = gf.function(&mut r, true);
                let mut ids = gf.ids.clone();
                r.shuffle(&mut ids);
                let m = 1 + r.below(4) as usize;
                let repl: Vec<Value> = ids[..m]
                    .iter()
                    .map(|i| {
                        let mut h = gr.function(&mut r, false);
                        if h["kind"] == "quadratic" {
                            h = gr.quadratic(&mut r, true); // schema: no duplicated (row, column) positions
                        }
                        json!([i, h])
                    })
                    .collect();
                out.push(ev("subst_fn", format!("d-subst-{k}"), json!({"f": f, "repl": repl})));
            }
        }
        "arith" => {
            let combos: Vec<(String, String, String)> =
                serde_json::from_str::<Vec<Vec<String>>>(include_str!("../../tools/arith_defined.json"))
                    .unwrap()
                    .into_iter()
                    .map(|c| (c[0].clone(), c[1].clone(), c[2].clone()))
                    .collect();
            let g2 = FnGen { ids: vec![1, 2, 3, 5, 8, 13], coef_den: 4, coef_max: 8, max_terms: 8, max_deg: 2 };
            let operand = |r: &mut Rng, k: &str| -> Value {
                let none = json!({"kind":"none"});
                match k {
                    "num" => json!({"k":"num","c":g2.coef(r),"id":0,"f":none}),
                    "dv" => json!({"k":"dv","c":[0,1],"id":g2.id(r),"f":none,"vk":*r.pick(&["binary", "integer", "continuous"])}),
                    "param" => json!({"k":"param","c":[0,1],"id":g2.id(r),"f":none}),
                    "lin" => json!({"k":"lin","c":[0,1],"id":0,"f":g2.linear(r)}),
                    "quad" => json!({"k":"quad","c":[0,1],"id":0,"f":g2.quadratic(r, true)}),
                    "poly" => json!({"k":"poly","c":[0,1],"id":0,"f":g2.polynomial(r)}),
                    _ => {
                        let mut f = g2.function(r, false);
                        if f["kind"] == "quadratic" {
                            f = g2.quadratic(r, true);
                        }
                        json!({"k":"func","c":[0,1],"id":0,"f":f})
                    }
                }
            };
            for k in 0..n {
                if r.chance(1, 12) {
                    let kinds = ["num", "dv", "param", "lin", "quad", "poly", "func"];
                    let kk = *r.pick(&kinds);
                    let a = operand(&mut r, kk);
                    let b = operand(&mut r, "num");
                    out.push(ev("arith", format!("d-arith-{k}"), json!({"op":"neg","a":a,"b":b})));
                    continue;
                }
                let c = combos[r.below(combos.len() as u64) as usize].clone();
                let a = operand(&mut r, &c.1);
                // an operand combined with itself (squares, x - x): identical term vectors, repeated ids included
                let b = if c.1 == c.2 && r.chance(1, 6) { a.clone() } else { operand(&mut r, &c.2) };
                out.push(ev("arith", format!("d-arith-{k}"), json!({"op":c.0,"a":a,"b":b})));
            }
        }
        "eval_bound" => {
            let gb = FnGen { ids: vec![1, 2, 3], coef_den: 2, coef_max: 6, max_terms: 4, max_deg: 4 };
            let ends: Vec<Value> = vec![json!([-1, 0]), json!([-3, 1]), json!([-1, 1]), json!([-1, 2]), json!([0, 1]), json!([1, 2]), json!([1, 1]), json!([2, 1]), json!([5, 2]), json!([1, 0])];
            for k in 0..n {
                let f = gb.function(&mut r, true);
                let mut bx = vec![];
                for id in &gb.ids {
                    if r.chance(1, 8) {
                        continue; // unbounded by omission
                    }
                    let i = r.below(ends.len() as u64) as usize;
                    let j = i + r.below((ends.len() - i) as u64) as usize;
                    if i == ends.len() - 1 || j == 0 {
                        continue; // lo = +inf or hi = -inf would be invalid
                    }
                    bx.push(json!([id, {"lo": ends[i], "hi": ends[j]}]));
                }
                out.push(ev("eval_bound", format!("d-evalbound-{k}"), json!({"f": f, "box": bx})));
            }
        }
        "content_factor" => {
            let dens = [1i64, 2, 3, 4, 5, 6, 7, 8, 9, 10, 12, 15, 20, 24, 30, 36, 45, 60];
            fn gcd(a: i64, b: i64) -> i64 { if b == 0 { a.abs() } else { gcd(b, a % b) } }
            for k in 0..n {
                let nt = 1 + r.below(4);
                let mut terms = vec![];
                for i in 0..nt {
                    let d = *r.pick(&dens);
                    let p = r.range(-12, 12);
                    let g = gcd(p, d).max(1);
                    terms.push(json!({"id": i + 1, "c": [p / g, d / g]}));
                }
                let d = *r.pick(&dens);
                let p = r.range(-6, 6);
                let g = gcd(p, d).max(1);
                out.push(ev("content_factor", format!("d-content-{k}"),
                    json!({"f": {"kind":"linear","terms":terms,"constant":[p / g, d / g]}})));
            }
        }
        "store" => {
            // random histories of the artifact store: more names (ports, nested repositories), more paths, longer
            let names = ["ghcr.io/o/r/x:v1", "localhost:5000/t/y:tag1", "ttl.sh/abc:1h", "registry.example.com:5000/a/b/c:tag-1.0"];
            let paths = ["a1", "a2", "a3"];
            for k in 0..n {
                let len = 2 + r.below(7);
                let mut ops = vec![];
                for _ in 0..len {
                    let layers: Vec<Value> = (0..r.below(4)).map(|_| json!([*r.pick(&["solution", "instance"]), 1 + r.below(5)])).collect();
                    ops.push(match r.below(6) {
                        0 | 1 => json!({"op":"build_archive","path":*r.pick(&paths),"name": if r.chance(1, 4) { json!([]) } else { json!([*r.pick(&names)]) },"layers":layers}),
                        2 => json!({"op":"build_dir","name":*r.pick(&names),"layers":layers}),
                        3 | 4 => json!({"op":"load","path":*r.pick(&paths)}),
                        _ => json!({"op":"save","name":*r.pick(&names),"out":*r.pick(&paths)}),
                    });
                }
                out.push(json!({"ev":"store","case":format!("d-store-{k}"),"src":"drive","in":{"dir":"work/C20/arch","ops":ops}}));
            }
        }
        other => {
            out.extend(crate::gen_inst::generate(other, &mut r, n));
        }
    }
    out
}
