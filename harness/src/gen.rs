//! Seeded random input generators (direction B).
use serde_json::Value;
pub fn generate(_group: &str, _seed: u64, _n: usize) -> Vec<Value> {
    Vec::new()
}
