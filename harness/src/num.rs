//! Exact conversion between f64 and the trace's rational pairs `[p, q]`.
//!
//! `[n,1]` integers, `[p,2^k]` dyadics, `[1,0]` +inf, `[-1,0]` -inf, `[0,0]` NaN,
//! `[0,-2]` = finite but not representable within the limits (no clause accepts it).
use serde_json::{json, Value};

pub const P_LIMIT: f64 = 1073741824.0; // 2^30
pub const Q_LIMIT_LOG: i32 = 26;

/// `[p,q]` -> f64 (correctly rounded division; exact for dyadics)
pub fn to_f64(v: &Value) -> f64 {
    let p = v[0].as_i64().expect("num p");
    let q = v[1].as_i64().expect("num q");
    // tolerance tokens: exactly the f64 constants the SDK compares with
    if q == -6 {
        return if p > 0 { 1e-6 } else { -1e-6 };
    }
    if q == -7 {
        return if p > 0 { 1e-7 } else { -1e-7 };
    }
    // magnitude token: +-1e30, the value MPS writers conventionally use for "infinity" -- a FINITE number here
    if q == -30 {
        return if p > 0 { 1e30 } else { -1e30 };
    }
    if q == 0 {
        return if p > 0 {
            f64::INFINITY
        } else if p < 0 {
            f64::NEG_INFINITY
        } else {
            f64::NAN
        };
    }
    if p == 0 && NEGZERO.with(|c| c.get()) {
        // signed-zero replay (see exec::apply): every zero of the vector enters the SDK as -0.0
        return -0.0;
    }
    p as f64 / q as f64
}
thread_local! { static NEGZERO: std::cell::Cell<bool> = std::cell::Cell::new(false); }
pub fn set_negzero(on: bool) {
    NEGZERO.with(|c| c.set(on));
}

/// f64 -> `[p,q]`, exact or the "unrepresentable" marker
pub fn from_f64(x: f64) -> Value {
    if x.is_nan() {
        return json!([0, 0]);
    }
    if x == f64::INFINITY {
        return json!([1, 0]);
    }
    if x == f64::NEG_INFINITY {
        return json!([-1, 0]);
    }
    if x == 1e-6 {
        return json!([1, -6]);
    }
    if x == -1e-6 {
        return json!([-1, -6]);
    }
    if x == 1e-7 {
        return json!([1, -7]);
    }
    if x == 1e30 {
        return json!([1, -30]);
    }
    if x == -1e30 {
        return json!([-1, -30]);
    }
    if x == -1e-7 {
        return json!([-1, -7]);
    }
    let mut y = x;
    for k in 0..=Q_LIMIT_LOG {
        if y.abs() >= P_LIMIT {
            break;
        }
        if y.fract() == 0.0 {
            let p = y as i64;
            let q = 1i64 << k;
            // reduce (p odd unless k = 0 is guaranteed by taking the first k)
            return json!([p, q]);
        }
        y *= 2.0;
    }
    // Not a small dyadic.  A value that is (up to float rounding noise, 1e-12 relative) a rational p/q with a
    // NON-power-of-two denominator q <= 4096 is logged as that rational, so that problems with coefficients such
    // as 1/3 survive the f64 round trip.  Dyadic values never take this path: in the dyadic domain the trace is
    // bit-exact, and a 1-ulp error there is logged as unrepresentable and rejected by the judge.
    let a = approx_rational(x, 4096);
    if let (Some(p), Some(q)) = (a[0].as_i64(), a[1].as_i64()) {
        if q > 1 && (q & (q - 1)) != 0 {
            let r = p as f64 / q as f64;
            if (r - x).abs() <= 1e-12 * x.abs().max(1.0) {
                return a;
            }
        }
    }
    json!([0, -2])
}

/// best rational approximation with denominator <= max_den (continued fractions), as `[p,q]`;
/// the unrepresentable marker if the numerator does not fit
pub fn approx_rational(x: f64, max_den: i64) -> Value {
    if !x.is_finite() {
        return from_f64(x);
    }
    let neg = x < 0.0;
    let mut r = x.abs();
    let (mut p0, mut q0, mut p1, mut q1) = (0i64, 1i64, 1i64, 0i64);
    for _ in 0..64 {
        let a = r.floor();
        if a > 1e15 {
            break;
        }
        let a_i = a as i64;
        let p2 = a_i.saturating_mul(p1).saturating_add(p0);
        let q2 = a_i.saturating_mul(q1).saturating_add(q0);
        if q2 > max_den || q2 <= 0 {
            break;
        }
        p0 = p1;
        q0 = q1;
        p1 = p2;
        q1 = q2;
        let f = r - a;
        if f < 1e-12 {
            break;
        }
        r = 1.0 / f;
    }
    if q1 == 0 || (p1 as f64) >= P_LIMIT {
        return json!([0, -2]);
    }
    json!([if neg { -p1 } else { p1 }, q1])
}

/// deterministic small PRNG (xorshift64*), so drivers need no external crate
pub struct Rng(pub u64);
impl Rng {
    pub fn new(seed: u64) -> Self {
        Rng(seed.wrapping_mul(0x9E3779B97F4A7C15) ^ 0xD1B54A32D192ED03)
    }
    pub fn next(&mut self) -> u64 {
        let mut x = self.0;
        if x == 0 {
            x = 0x2545F4914F6CDD1D;
        }
        x ^= x >> 12;
        x ^= x << 25;
        x ^= x >> 27;
        self.0 = x;
        x.wrapping_mul(0x2545F4914F6CDD1D)
    }
    pub fn below(&mut self, n: u64) -> u64 {
        if n == 0 {
            0
        } else {
            (self.next() >> 11) % n
        }
    }
    pub fn range(&mut self, lo: i64, hi: i64) -> i64 {
        lo + self.below((hi - lo + 1) as u64) as i64
    }
    pub fn chance(&mut self, num: u64, den: u64) -> bool {
        self.below(den) < num
    }
    pub fn pick<'a, T>(&mut self, xs: &'a [T]) -> &'a T {
        &xs[self.below(xs.len() as u64) as usize]
    }
    pub fn shuffle<T>(&mut self, xs: &mut Vec<T>) {
        for i in (1..xs.len()).rev() {
            let j = self.below(i as u64 + 1) as usize;
            xs.swap(i, j);
        }
    }
}
