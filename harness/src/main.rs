//! ommx-conform: drives the real ommx API from trace events and records what it did.
//!   ommx-conform replay <in.ndjson> <out.ndjson> [--jobs J] [--timeout-ms T]
//!   ommx-conform gen <group> --seed S --n N <out.ndjson>
//!   ommx-conform worker            (internal: one event per stdin line)
//!   ommx-conform wire-types        (list of prost types the wire events dispatch on)
mod arith_table;
mod exec;
mod exec_inst;
mod exec_misc;
mod exec_store;
mod exec_text;
mod gen;
mod gen_inst;
mod gen_text;
mod num;
mod shape;

use serde_json::{json, Value};
use std::io::{BufRead, BufReader, BufWriter, Write};
use std::process::{Child, ChildStdin, Command, Stdio};
use std::sync::mpsc::{channel, Receiver, RecvTimeoutError};
use std::time::Duration;

const DONE: &str = "#done";

fn worker() {
    std::panic::set_hook(Box::new(|_| {}));
    let stdin = std::io::stdin();
    let stdout = std::io::stdout();
    let mut out = BufWriter::new(stdout.lock());
    for line in stdin.lock().lines() {
        let line = line.expect("stdin");
        if line.trim().is_empty() {
            continue;
        }
        let ev: Value = serde_json::from_str(&line).expect("event json");
        for o in exec::apply(&ev) {
            writeln!(out, "{}", serde_json::to_string(&o).unwrap()).unwrap();
        }
        writeln!(out, "{DONE}").unwrap();
        out.flush().unwrap();
    }
}

struct Proc {
    child: Child,
    stdin: ChildStdin,
    rx: Receiver<String>,
}
fn spawn() -> Proc {
    let exe = std::env::current_exe().unwrap();
    // address-space limit so that a runaway allocation in the code under test is a recorded crash
    let mut child = Command::new("sh")
        .arg("-c")
        .arg(format!("ulimit -v 6000000; exec '{}' worker", exe.display()))
        .stdin(Stdio::piped())
        .stdout(Stdio::piped())
        .stderr(Stdio::null())
        .spawn()
        .expect("spawn worker");
    let stdin = child.stdin.take().unwrap();
    let stdout = child.stdout.take().unwrap();
    let (tx, rx) = channel();
    std::thread::spawn(move || {
        for l in BufReader::new(stdout).lines() {
            match l {
                Ok(l) => {
                    if tx.send(l).is_err() {
                        break;
                    }
                }
                Err(_) => break,
            }
        }
    });
    Proc { child, stdin, rx }
}

fn replay_slice(events: &[String], timeout: Duration) -> Vec<String> {
    let mut out = Vec::new();
    let mut p = spawn();
    for line in events {
        let mut failed: Option<&str> = None;
        let mut got = Vec::new();
        // a time-out may be the machine, not the code: the event is run once more, alone in a fresh worker, with six
        // times the budget, before it is recorded as a hang
        for attempt in 0..2 {
            failed = None;
            got.clear();
            let budget = if attempt == 0 { timeout } else { timeout * 6 };
            if writeln!(p.stdin, "{line}").and_then(|_| p.stdin.flush()).is_err() {
                failed = Some("crash");
            }
            while failed.is_none() {
                match p.rx.recv_timeout(budget) {
                    Ok(l) if l == DONE => break,
                    Ok(l) => got.push(l),
                    Err(RecvTimeoutError::Timeout) => failed = Some("hang"),
                    Err(RecvTimeoutError::Disconnected) => failed = Some("crash"),
                }
            }
            if failed == Some("hang") && attempt == 0 {
                let _ = p.child.kill();
                let _ = p.child.wait();
                p = spawn();
                continue;
            }
            break;
        }
        if let Some(tag) = failed {
            let _ = p.child.kill();
            let _ = p.child.wait();
            let mut ev: Value = serde_json::from_str(line).unwrap();
            ev["out"] = json!({"tag": tag});
            out.push(serde_json::to_string(&ev).unwrap());
            p = spawn();
        } else {
            out.extend(got);
        }
    }
    drop(p.stdin);
    let _ = p.child.wait();
    out
}

fn arg_val(args: &[String], name: &str) -> Option<String> {
    args.iter().position(|a| a == name).and_then(|i| args.get(i + 1).cloned())
}

fn main() {
    let args: Vec<String> = std::env::args().collect();
    match args.get(1).map(|s| s.as_str()) {
        Some("worker") => worker(),
        Some("wire-types") => {
            for t in exec_misc::wire_type_names() {
                println!("{t}");
            }
        }
        Some("replay") => {
            let inp = &args[2];
            let outp = &args[3];
            let jobs: usize = arg_val(&args, "--jobs").and_then(|s| s.parse().ok()).unwrap_or(4);
            let timeout = Duration::from_millis(arg_val(&args, "--timeout-ms").and_then(|s| s.parse().ok()).unwrap_or(20000));
            let lines: Vec<String> = BufReader::new(std::fs::File::open(inp).expect("open input"))
                .lines()
                .map(|l| l.unwrap())
                .filter(|l| !l.trim().is_empty())
                .collect();
            let jobs = jobs.max(1).min(lines.len().max(1));
            let chunk = (lines.len() + jobs - 1) / jobs.max(1);
            let mut handles = Vec::new();
            for c in lines.chunks(chunk.max(1)) {
                let c: Vec<String> = c.to_vec();
                handles.push(std::thread::spawn(move || replay_slice(&c, timeout)));
            }
            let mut w = BufWriter::new(std::fs::File::create(outp).expect("create output"));
            let mut n = 0;
            for h in handles {
                for l in h.join().expect("join") {
                    writeln!(w, "{l}").unwrap();
                    n += 1;
                }
            }
            w.flush().unwrap();
            eprintln!("replayed {} inputs -> {} events", lines.len(), n);
        }
        Some("gen") => {
            let group = &args[2];
            let seed: u64 = arg_val(&args, "--seed").and_then(|s| s.parse().ok()).unwrap_or(0);
            let n: usize = arg_val(&args, "--n").and_then(|s| s.parse().ok()).unwrap_or(100);
            let outp = args.last().unwrap();
            let mut w = BufWriter::new(std::fs::File::create(outp).expect("create output"));
            let mut k = 0;
            for ev in gen::generate(group, seed, n) {
                writeln!(w, "{}", serde_json::to_string(&ev).unwrap()).unwrap();
                k += 1;
            }
            w.flush().unwrap();
            eprintln!("generated {k} inputs for {group}");
        }
        _ => {
            eprintln!("usage: ommx-conform replay|gen|worker|wire-types ...");
            std::process::exit(2);
        }
    }
}
