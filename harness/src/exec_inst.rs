//! Instance-level events (C03-C06, C08-C15).
use crate::exec::guarded;
use crate::num::{approx_rational, from_f64, to_f64};
use crate::shape::*;
use ommx::v1::{self, Function};
use ommx::{Evaluate, Message};
use serde_json::{json, Value};
use std::collections::{BTreeSet, HashMap};

const NAMES: &[&str] = &[
    "evaluate", "inst_partial", "inst_subst", "relax", "restore", "penalty", "uniform_penalty",
    "to_parametric", "with_parameters", "as_min", "log_encode", "slack_convert", "slack_add",
    "evaluate_samples", "best", "pubo", "qubo", "validate", "pvalidate", "typed", "deps_order",
    "commute", "used_ids", "samples_helpers",
];
pub fn handles(n: &str) -> bool {
    NAMES.contains(&n)
}
fn err(e: impl std::fmt::Display) -> Value {
    json!({"tag":"err","msg": format!("{e:#}")})
}
fn ids_to<'a>(it: impl IntoIterator<Item = &'a u64>) -> Value {
    Value::Array(it.into_iter().map(|x| json!(crate::shape::down(*x))).collect())
}
fn sol_or_err(r: anyhow::Result<(v1::Solution, BTreeSet<u64>)>) -> Value {
    match r {
        Ok((s, used)) => json!({"tag":"ok","sol":solution_to(&s),"used":ids_to(&used)}),
        Err(e) => err(e),
    }
}

/// one mutating operation on an instance; returns (out-without-post, new instance)
fn step(inst: &mut v1::Instance, op: &str, a: &Value) -> Value {
    match op {
        "inst_partial" => match inst.partial_evaluate(&state_from(&a["st"])) {
            Ok(ids) => json!({"tag":"ok","ids":ids_to(&ids)}),
            Err(e) => err(e),
        },
        "inst_subst" => {
            let repl: HashMap<u64, Function> = deps_from(&a["repl"]);
            match inst.substitute(repl) {
                Ok(()) => json!({"tag":"ok"}),
                Err(e) => err(e),
            }
        }
        "relax" => match inst.relax_constraint(
            a["cid"].as_u64().unwrap(),
            a["reason"].as_str().unwrap().to_string(),
            strmap_from(&a["rparams"]),
        ) {
            Ok(()) => json!({"tag":"ok"}),
            Err(e) => err(e),
        },
        "restore" => match inst.restore_constraint(a["cid"].as_u64().unwrap()) {
            Ok(()) => json!({"tag":"ok"}),
            Err(e) => err(e),
        },
        "as_min" => {
            // downscaled replay: the objective's coefficients enter the SDK divided by 2^k (magnitudes far below f64::EPSILON)
            // and the converted objective is multiplied by 2^k again before it is recorded -- both exact, so "negated
            // exactly" must give the very objective the judge expects for the logged instance
            let k = a.get("downscale").and_then(|k| k.as_i64());
            if let (Some(k), Some(f)) = (k, inst.objective.as_mut()) {
                crate::exec::scale_function(f, 2f64.powi(-(k as i32)));
            }
            inst.as_minimization_problem();
            if let (Some(k), Some(f)) = (k, inst.objective.as_mut()) {
                crate::exec::scale_function(f, 2f64.powi(k as i32));
            }
            json!({"tag":"ok"})
        }
        "log_encode" => match inst.log_encode(a["vid"].as_u64().unwrap()) {
            Ok(l) => json!({"tag":"ok","enc":linear_to(&l)}),
            Err(e) => err(e),
        },
        "slack_convert" => {
            match inst.convert_inequality_to_equality_with_integer_slack(
                a["cid"].as_u64().unwrap(),
                a["max"].as_u64().unwrap(),
            ) {
                Ok(()) => json!({"tag":"ok"}),
                Err(e) => {
                    if e.downcast_ref::<ommx::InfeasibleDetected>().is_some() {
                        json!({"tag":"infeasible","msg":format!("{e:#}")})
                    } else {
                        err(e)
                    }
                }
            }
        }
        "slack_add" => {
            match inst.add_integer_slack_to_inequality(a["cid"].as_u64().unwrap(), a["ub"].as_u64().unwrap()) {
                Ok(b) => {
                    // is the reported b the coefficient of the newest variable in the constraint's function? (f64 ==)
                    let cid = a["cid"].as_u64().unwrap();
                    let sid = inst.decision_variables.last().map(|d| d.id);
                    let coef = inst.constraints.iter().find(|c| c.id == cid).and_then(|c| {
                        let f = c.function();
                        let mut it = f.into_iter();
                        it.find(|(ids, _)| ids.len() == 1 && Some(ids[0]) == sid).map(|(_, c)| c)
                    });
                    json!({"tag":"ok","b":optv(&b, |x| from_f64(*x)),
                           "b_approx":optv(&b, |x| approx_rational(*x, 1_000_000)),
                           // the SDK drops coefficients with |c| <= f64::EPSILON when it adds functions: an absent
                           // term stands for a reported b inside that threshold
                           "b_is_slack_coef": match (b, coef) {
                               (Some(b), Some(c)) => c == b,
                               (Some(b), None) => b.abs() <= f64::EPSILON,
                               _ => false,
                           }})
                }
                Err(e) => {
                    if e.downcast_ref::<ommx::InfeasibleDetected>().is_some() {
                        json!({"tag":"infeasible","msg":format!("{e:#}")})
                    } else {
                        err(e)
                    }
                }
            }
        }
        "evaluate" => sol_or_err(inst.evaluate(&state_from(&a["st"]))),
        o => panic!("unknown step {o}"),
    }
}

/// feasibility table of constraint `cid` in `inst` (wherever it is: active or removed) by the REAL evaluator:
/// for every given point x and every integer value s of variable `svar` in its declared bound
fn feas_table(inst: &v1::Instance, cid: u64, points: &Value, pre_var_ids: &BTreeSet<u64>) -> Value {
    // the slack variable = the variable that did not exist before
    let newv: Vec<&v1::DecisionVariable> =
        inst.decision_variables.iter().filter(|d| !pre_var_ids.contains(&d.id)).collect();
    let mut rows = Vec::new();
    let svals: Vec<(Option<u64>, f64)> = if newv.len() == 1 {
        let d = newv[0];
        match &d.bound {
            Some(b) if b.lower.is_finite() && b.upper.is_finite() && b.upper - b.lower <= 4096.0 => {
                let mut v = Vec::new();
                let mut s = b.lower.ceil();
                while s <= b.upper.floor() {
                    v.push((Some(d.id), s));
                    s += 1.0;
                }
                v
            }
            _ => vec![],
        }
    } else {
        vec![(None, 0.0)]
    };
    for p in points.as_array().unwrap() {
        for (sid, s) in &svals {
            let mut st = state_from(p);
            if let Some(sid) = sid {
                st.entries.insert(*sid, *s);
            }
            let r = guarded(|| match inst.evaluate(&st) {
                Ok((sol, _)) => {
                    match sol.evaluated_constraints.iter().find(|c| c.id == cid) {
                        Some(c) => json!({"tag":"ok","value":from_f64(c.evaluated_value),
                            "feasible": c.is_feasible(1e-6).unwrap_or(false), "eq": eq_to(c.equality)}),
                        None => json!({"tag":"missing"}),
                    }
                }
                Err(e) => err(e),
            });
            rows.push(json!({"x": p, "s": from_f64(*s), "r": r}));
        }
    }
    Value::Array(rows)
}

pub fn apply_one(ev0: &Value) -> Vec<Value> {
    // echo the input messages as the harness understood them (protobuf maps have no order: both the echoed input
    // and every recorded output list map entries sorted by key, so raw pre/post messages are comparable)
    let mut ev1 = ev0.clone();
    if ev1["in"].get("inst").is_some() {
        ev1["in"]["inst"] = instance_to(&instance_from(&ev0["in"]["inst"]));
    }
    if ev1["in"].get("pinst").is_some() {
        ev1["in"]["pinst"] = pinstance_to(&pinstance_from(&ev0["in"]["pinst"]));
    }
    let ev = &ev1;
    let name = ev["ev"].as_str().unwrap();
    let inp = &ev["in"];
    let mk = |out: Value| -> Value {
        let mut e = ev.clone();
        e["out"] = out;
        e
    };
    let out = match name {
        "evaluate" | "inst_partial" | "inst_subst" | "relax" | "restore" | "as_min" | "log_encode"
        | "slack_convert" | "slack_add" => guarded(|| {
            let mut inst = instance_from(&inp["inst"]);
            let pre_ids: BTreeSet<u64> = inst.decision_variables.iter().map(|d| d.id).collect();
            let mut o = step(&mut inst, name, inp);
            if name != "evaluate" {
                o["post"] = instance_to(&inst);
            }
            if (name == "slack_convert" || name == "slack_add") && inp.get("points").is_some() {
                o["table"] = feas_table(&inst, inp["cid"].as_u64().unwrap(), &inp["points"], &pre_ids);
            }
            o
        }),
        "commute" => guarded(|| {
            // evaluate(I, s1 u s2)  vs  evaluate(pe(I, s1), s2)  vs  evaluate(pe(pe(I, s1a), s1b), s2)
            let inst = instance_from(&inp["inst"]);
            let s1 = state_from(&inp["s1"]);
            let s2 = state_from(&inp["s2"]);
            let mut all = s1.clone();
            all.entries.extend(s2.entries.clone());
            let a = sol_or_err(inst.evaluate(&all));
            let mut j = inst.clone();
            let pe = match j.partial_evaluate(&s1) {
                Ok(ids) => json!({"tag":"ok","ids":ids_to(&ids)}),
                Err(e) => err(e),
            };
            let b = sol_or_err(j.evaluate(&s2));
            // two-step: split s1 by the given first part
            let s1a = state_from(&inp["s1a"]);
            let mut s1b = s1.clone();
            for k in s1a.entries.keys() {
                s1b.entries.remove(k);
            }
            let mut k2 = inst.clone();
            let two = match k2.partial_evaluate(&s1a).and_then(|_| k2.partial_evaluate(&s1b)) {
                Ok(_) => json!({"tag":"ok","post":instance_to(&k2)}),
                Err(e) => err(e),
            };
            let c = sol_or_err(k2.evaluate(&s2));
            json!({"tag":"ok","full":a,"pe":pe,"post":instance_to(&j),"rest":b,"two":two,"rest2":c})
        }),
        "penalty" | "uniform_penalty" | "to_parametric" => guarded(|| {
            let inst = instance_from(&inp["inst"]);
            let r = match name {
                "penalty" => inst.penalty_method(),
                "uniform_penalty" => inst.uniform_penalty_method(),
                _ => Ok(v1::ParametricInstance::from(inst)),
            };
            match r {
                Ok(p) => json!({"tag":"ok","pinst":pinstance_to(&p)}),
                Err(e) => err(e),
            }
        }),
        "with_parameters" => guarded(|| {
            let p = pinstance_from(&inp["pinst"]);
            let mut pv = v1::Parameters::default();
            pv.entries = state_from(&inp["pv"]).entries;
            match p.with_parameters(pv) {
                Ok(i) => json!({"tag":"ok","post":instance_to(&i)}),
                Err(e) => err(e),
            }
        }),
        "evaluate_samples" => guarded(|| {
            let inst = instance_from(&inp["inst"]);
            // the Samples message as given, or built through the SDK's own `Samples::add_sample`, one call per (id, state)
            // in the listed order (the judge always compares with evaluating the SUBMITTED state of each id alone)
            let given = samples_from(&inp["samples"]);
            let samples = if inp.get("build").and_then(|b| b.as_str()) == Some("add_sample") {
                let mut s = v1::Samples::default();
                for e in &given.entries {
                    for id in &e.ids {
                        s.add_sample(*id, e.state.clone().unwrap_or_default());
                    }
                }
                s
            } else {
                given.clone()
            };
            let sids: Vec<u64> = samples.ids().cloned().collect();
            let solo: Vec<Value> = given
                .iter()
                .map(|(sid, st)| json!({"sid": sid, "r": guarded(|| sol_or_err(inst.evaluate(st)))}))
                .collect();
            match inst.evaluate_samples(&samples) {
                Ok((ss, used)) => {
                    let gets: Vec<Value> = sids
                        .iter()
                        .map(|sid| {
                            json!({"sid": sid, "r": guarded(|| match ss.get(*sid) {
                                Ok(s) => json!({"tag":"ok","sol":solution_to(&s)}),
                                Err(e) => err(e),
                            })})
                        })
                        .collect();
                    json!({"tag":"ok","ss":sampleset_to(&ss),"used":ids_to(&used),"solo":solo,"gets":gets,
                           "sids": sids,
                           "num_samples": match ss.num_samples() { Ok(n) => json!([n]), Err(_) => json!([]) },
                           "sample_ids": ids_to(&ss.sample_ids())})
                }
                Err(e) => {
                    let mut o = err(e);
                    o["solo"] = Value::Array(solo);
                    o
                }
            }
        }),
        "best" => guarded(|| {
            let mut ss = sampleset_from(&inp["ss"]);
            if inp["via_bytes"].as_bool().unwrap_or(false) {
                let bytes = ss.encode_to_vec();
                ss = v1::SampleSet::decode(bytes.as_slice()).expect("decode");
            }
            let one = |r: anyhow::Result<u64>| match r {
                Ok(id) => json!({"tag":"ok","id":id}),
                Err(e) => err(e),
            };
            let sol = |r: anyhow::Result<v1::Solution>| match r {
                Ok(s) => json!({"tag":"ok","objective":from_f64(s.objective),"feasible":s.feasible,
                                "feasible_relaxed":optv(&s.feasible_relaxed, |b| json!(b))}),
                Err(e) => err(e),
            };
            json!({"tag":"ok",
                "relaxed": one(ss.best_feasible_id()), "unrelaxed": one(ss.best_feasible_unrelaxed_id()),
                "relaxed_sol": sol(ss.best_feasible()), "unrelaxed_sol": sol(ss.best_feasible_unrelaxed()),
                "feasible_ids": ids_to(&ss.feasible_ids()), "feasible_unrelaxed_ids": ids_to(&ss.feasible_unrelaxed_ids())})
        }),
        "pubo" => guarded(|| {
            let inst = instance_from(&inp["inst"]);
            match inst.as_pubo_format() {
                Ok(d) => json!({"tag":"ok","dict": d.iter().map(|(k, c)| json!({"ids": k.iter().cloned().collect::<Vec<u64>>(), "c": from_f64(*c)})).collect::<Vec<_>>()}),
                Err(e) => err(e),
            }
        }),
        "qubo" => guarded(|| {
            let inst = instance_from(&inp["inst"]);
            match inst.as_qubo_format() {
                Ok((d, off)) => json!({"tag":"ok","offset":from_f64(off),
                    "dict": d.iter().map(|(k, c)| json!({"ids": [k.0, k.1], "c": from_f64(*c)})).collect::<Vec<_>>()}),
                Err(e) => err(e),
            }
        }),
        "samples_helpers" => guarded(|| {
            let mut s = v1::Samples::default();
            for a in inp["adds"].as_array().unwrap() {
                s.add_sample(a[0].as_u64().unwrap(), state_from(&a[1]));
            }
            let raw: Vec<Value> = s.entries.iter().map(|e| json!({"state": optv(&e.state, state_to), "ids": e.ids})).collect();
            let mut tr: Vec<(u64, v1::SampledValues)> = s.transpose().into_iter().collect();
            tr.sort_by_key(|(k, _)| *k);
            json!({"tag":"ok","samples":raw,"ids": s.ids().cloned().collect::<Vec<u64>>(),
                   "transposed": tr.iter().map(|(k, v)| json!([k, sv_to(v)])).collect::<Vec<_>>()})
        }),
        "used_ids" => guarded(|| {
            let inst = instance_from(&inp["inst"]);
            json!({"tag":"ok","used": ids_to(&inst.used_decision_variable_ids()), "defined": ids_to(&inst.defined_ids()),
                   "cids": ids_to(&inst.constraint_ids()), "rcids": ids_to(&inst.removed_constraint_ids()),
                   "binary": ids_to(&inst.binary_ids())})
        }),
        "validate" => guarded(|| match instance_from(&inp["inst"]).validate() {
            Ok(()) => json!({"tag":"ok"}),
            Err(e) => err(e),
        }),
        "pvalidate" => guarded(|| match pinstance_from(&inp["pinst"]).validate() {
            Ok(()) => json!({"tag":"ok"}),
            Err(e) => err(e),
        }),
        "typed" => guarded(|| crate::exec_misc::typed(&inp["inst"])),
        "deps_order" => guarded(|| {
            // re-decode the instance to obtain fresh hash-map iteration orders; evaluate under each distinct one
            let inst0 = instance_from(&inp["inst"]);
            let st = state_from(&inp["st"]);
            let bytes = inst0.encode_to_vec();
            let tries = inp["tries"].as_u64().unwrap_or(200);
            let mut seen: HashMap<Vec<u64>, Value> = HashMap::new();
            for _ in 0..tries {
                let inst = v1::Instance::decode(bytes.as_slice()).expect("decode");
                // eval_dependencies pops from the end of `dependencies.iter().collect()`
                let mut order: Vec<u64> = inst.decision_variable_dependency.keys().cloned().collect();
                order.reverse();
                if seen.contains_key(&order) {
                    continue;
                }
                let r = guarded(|| match inst.evaluate(&st) {
                    Ok((s, _)) => json!({"tag":"ok","state":optv(&s.state, state_to)}),
                    Err(e) => err(e),
                });
                seen.insert(order, r);
            }
            let mut runs: Vec<(Vec<u64>, Value)> = seen.into_iter().collect();
            runs.sort_by(|a, b| a.0.cmp(&b.0));
            json!({"tag":"ok","runs": runs.into_iter().map(|(o, r)| json!({"order":o,"r":r})).collect::<Vec<_>>()})
        }),
        o => panic!("exec_inst: {o}"),
    };
    vec![mk(out)]
}

/// `chain_encode`: the QUBO driver's path  log_encode(v) -> substitute(v := enc) -> evaluate(state over the bits),
/// emitted as three separately judged events; `bits` selects the 0/1 pattern of the new binaries (bit k of the number)
pub fn apply_chain_encode(ev: &Value) -> Vec<Value> {
    let inp = &ev["in"];
    let case = ev["case"].clone();
    let mut outs = Vec::new();
    let e1 = json!({"ev":"log_encode","case":case,"step":1,"src":ev["src"],"in":{"inst":inp["inst"],"vid":inp["vid"]}});
    let r1 = apply_one(&e1);
    let o1 = r1[0]["out"].clone();
    outs.extend(r1);
    if o1["tag"] != "ok" {
        return outs;
    }
    let post1 = o1["post"].clone();
    let e2 = json!({"ev":"inst_subst","case":case,"step":2,"src":ev["src"],"in":{"inst":post1,"repl":[[inp["vid"], o1["enc"]]]}});
    let r2 = apply_one(&e2);
    let o2 = r2[0]["out"].clone();
    outs.extend(r2);
    if o2["tag"] != "ok" {
        return outs;
    }
    // state: the given values for the other variables + the chosen bit pattern for the variables log_encode added
    let pre_ids: BTreeSet<u64> = inp["inst"]["vars"].as_array().unwrap().iter().map(|v| v["id"].as_u64().unwrap()).collect();
    let mut st: Vec<Value> = inp["st"].as_array().unwrap().clone();
    let bits = inp["bits"].as_u64().unwrap_or(0);
    let mut k = 0;
    for v in o2["post"]["vars"].as_array().unwrap() {
        let id = v["id"].as_u64().unwrap();
        if !pre_ids.contains(&id) {
            st.push(json!([id, [((bits >> k) & 1), 1]]));
            k += 1;
        }
    }
    let e3 = json!({"ev":"evaluate","case":case,"step":3,"src":ev["src"],"in":{"inst":o2["post"],"st":st}});
    outs.extend(apply_one(&e3));
    outs
}

/// integer box used to complete arguments: the declared bound clipped to a small window
fn auto_box(v: &Value) -> (i64, i64) {
    let b = v["bound"].as_array().unwrap().first();
    let (mut lo, mut hi) = match b {
        Some(b) => (to_f64(&b["lo"]), to_f64(&b["hi"])),
        None if v["kind"] == "binary" => (0.0, 1.0),
        None => (f64::NEG_INFINITY, f64::INFINITY),
    };
    if !lo.is_finite() && !hi.is_finite() {
        lo = 0.0;
        hi = 0.0;
    } else if !lo.is_finite() {
        lo = hi;
    } else if !hi.is_finite() {
        hi = lo;
    }
    let (lo, hi) = (lo.ceil() as i64, hi.floor() as i64);
    (lo, hi.max(lo))
}
/// lattice points over the free integer/binary variables of the instance (continuous, fixed and dependent variables
/// get one in-bound value); None if there are more than 400
fn auto_points(inst: &Value) -> Option<Value> {
    let deps: BTreeSet<u64> = inst["deps"].as_array().unwrap().iter().map(|d| d[0].as_u64().unwrap()).collect();
    let mut points: Vec<Vec<Value>> = vec![vec![]];
    for v in inst["vars"].as_array().unwrap() {
        let id = v["id"].as_u64().unwrap();
        if deps.contains(&id) {
            continue;
        }
        let (lo, hi) = auto_box(v);
        let vals: Vec<Value> = if let Some(f) = v["fixed"].as_array().unwrap().first() {
            vec![f.clone()]
        } else if v["kind"] == "continuous" || hi - lo > 8 {
            vec![json!([lo, 1])]
        } else {
            (lo..=hi).map(|x| json!([x, 1])).collect()
        };
        let mut next = Vec::with_capacity(points.len() * vals.len());
        for p in &points {
            for x in &vals {
                let mut p2 = p.clone();
                p2.push(json!([id, x]));
                next.push(p2);
            }
        }
        points = next;
        if points.len() > 400 {
            return None;
        }
    }
    Some(Value::Array(points.into_iter().map(Value::Array).collect()))
}

/// `seq`: in {inst, ops:[{op, ...args}]} -> one event per op with pre (`in.inst`) and post (`out.post`)
pub fn apply_seq(ev: &Value) -> Vec<Value> {
    let inp = &ev["in"];
    let case = ev["case"].clone();
    let mut cur = inp["inst"].clone();
    let mut outs = Vec::new();
    let ids0: BTreeSet<u64> = cur["vars"].as_array().unwrap().iter().map(|v| v["id"].as_u64().unwrap()).collect();
    for (k, op) in inp["ops"].as_array().unwrap().iter().enumerate() {
        if op["op"] == "encode_all_integers" {
            // log-encode + substitute every integer variable that is still free (the slack variables created on the way included)
            let deps: BTreeSet<u64> = cur["deps"].as_array().unwrap().iter().map(|d| d[0].as_u64().unwrap()).collect();
            let todo: Vec<u64> = cur["vars"].as_array().unwrap().iter()
                .filter(|v| v["kind"] == "integer" && v["fixed"].as_array().unwrap().is_empty() && !deps.contains(&v["id"].as_u64().unwrap()))
                .map(|v| v["id"].as_u64().unwrap()).collect();
            for vid in todo {
                let e1 = json!({"ev":"log_encode","case":case,"step":k + 1,"src":ev["src"],"in":{"inst":cur,"vid":vid}});
                let r1 = apply_one(&e1);
                let o1 = r1[0]["out"].clone();
                outs.extend(r1);
                if o1["tag"] == "ok" {
                    let e2 = json!({"ev":"inst_subst","case":case,"step":k + 1,"src":ev["src"],"in":{"inst":o1["post"],"repl":[[vid, o1["enc"]]]}});
                    let r2 = apply_one(&e2);
                    if r2[0]["out"]["tag"] == "ok" {
                        cur = r2[0]["out"]["post"].clone();
                    }
                    outs.extend(r2);
                }
            }
            continue;
        }
        if op["op"] == "penalty_chain" {
            // (uniform_)penalty_method, then with_parameters with the given weights (cyclically, in the order the
            // parametric instance lists its parameters); the history continues on the unconstrained instance
            let name = if op["uniform"] == true { "uniform_penalty" } else { "penalty" };
            let e1 = json!({"ev":name,"case":case,"step":k + 1,"src":ev["src"],"in":{"inst":cur}});
            let r1 = apply_one(&e1);
            let o1 = r1[0]["out"].clone();
            outs.extend(r1);
            if o1["tag"] == "ok" {
                let ws = op["weights"].as_array().unwrap();
                let pv: Vec<Value> = o1["pinst"]["parameters"].as_array().unwrap().iter().enumerate()
                    .map(|(i, p)| json!([p["id"], ws[i % ws.len()]])).collect();
                let e2 = json!({"ev":"with_parameters","case":case,"step":k + 1,"src":ev["src"],"in":{"pinst":o1["pinst"],"pv":pv}});
                let r2 = apply_one(&e2);
                if r2[0]["out"]["tag"] == "ok" {
                    cur = r2[0]["out"]["post"].clone();
                }
                outs.extend(r2);
            }
            continue;
        }
        if op["op"] == "encode_subst" {
            // log-encode a variable, then substitute the encoding the call returned (the to-QUBO pipeline): two events
            let e1 = json!({"ev":"log_encode","case":case,"step":k + 1,"src":ev["src"],"in":{"inst":cur,"vid":op["vid"]}});
            let r1 = apply_one(&e1);
            let o1 = r1[0]["out"].clone();
            outs.extend(r1);
            if o1["tag"] == "ok" {
                let e2 = json!({"ev":"inst_subst","case":case,"step":k + 1,"src":ev["src"],"in":{"inst":o1["post"],"repl":[[op["vid"], o1["enc"]]]}});
                let r2 = apply_one(&e2);
                if r2[0]["out"]["tag"] == "ok" {
                    cur = r2[0]["out"]["post"].clone();
                }
                outs.extend(r2);
            }
            continue;
        }
        let mut one = json!({"ev": op["op"], "case": case, "step": k + 1, "src": ev["src"], "in": op});
        one["in"]["inst"] = cur.clone();
        one["in"].as_object_mut().unwrap().remove("op");
        // arguments the driver cannot know in advance (they depend on variables earlier steps created) are completed
        // from the CURRENT instance; the completed arguments are what is logged and judged
        if let Some(fill) = op.get("fill").and_then(|f| f.as_u64()) {
            let mut st = op["st"].as_array().unwrap().clone();
            let mut j = 0u32;
            for v in cur["vars"].as_array().unwrap() {
                let id = v["id"].as_u64().unwrap();
                let given = st.iter().any(|e| e[0].as_u64() == Some(id));
                let dep = cur["deps"].as_array().unwrap().iter().any(|d| d[0].as_u64() == Some(id));
                if given || dep || !v["fixed"].as_array().unwrap().is_empty() || (ids0.contains(&id) && op.get("fill_all").is_none()) {
                    continue;
                }
                let (lo, hi) = auto_box(v);
                let w = (hi - lo + 1).max(1) as u64;
                let x = lo + (fill.rotate_right(3 * j) % w) as i64;
                st.push(json!([id, [x, 1]]));
                j += 1;
            }
            one["in"]["st"] = Value::Array(st);
            one["in"].as_object_mut().unwrap().remove("fill");
            one["in"].as_object_mut().unwrap().remove("fill_all");
        }
        if op.get("points").and_then(|p| p.as_str()) == Some("auto") {
            match auto_points(&cur) {
                Some(p) => one["in"]["points"] = p,
                None => continue, // the box is too large to enumerate: the step is skipped
            }
        }
        let r = crate::exec::apply(&one);
        for e in r {
            if let Some(p) = e["out"].get("post") {
                if e["out"]["tag"] != "panic" {
                    cur = p.clone();
                }
            }
            outs.push(e);
        }
    }
    outs
}
