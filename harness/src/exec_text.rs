//! MPS / QPLIB events (C17-C19).
use crate::exec::guarded;
use crate::shape::*;
use serde_json::{json, Value};
use std::io::{Read, Write};

pub fn handles(n: &str) -> bool {
    matches!(n, "mps_load" | "mps_roundtrip" | "qplib_load")
}
fn text_of(inp: &Value) -> String {
    let mut s = String::new();
    for l in inp["lines"].as_array().unwrap() {
        s.push_str(l.as_str().unwrap());
        s.push('\n');
    }
    s
}
fn mps_err(e: &ommx::mps::MpsParseError) -> Value {
    use ommx::mps::MpsParseError as E;
    let kind = match e {
        E::UnknownRowName(_) => "UnknownRowName",
        E::InvalidRowType(_) => "InvalidRowType",
        E::InvalidBoundType(_) => "InvalidBoundType",
        E::InvalidHeader(_) => "InvalidHeader",
        E::InvalidMarker(_) => "InvalidMarker",
        E::InvalidObjSense(_) => "InvalidObjSense",
        E::Io(_) => "Io",
        E::ParseFloat(_) => "ParseFloat",
    };
    json!({"tag":"err","kind":kind,"msg":e.to_string()})
}
fn scratch(inp: &Value, suffix: &str) -> std::path::PathBuf {
    let dir = std::path::PathBuf::from(inp["dir"].as_str().unwrap_or("work/tmp"));
    std::fs::create_dir_all(&dir).ok();
    dir.join(format!("t{}_{}", std::process::id(), suffix))
}

pub fn apply_one(ev: &Value) -> Vec<Value> {
    let name = ev["ev"].as_str().unwrap();
    let inp = &ev["in"];
    let out = match name {
        "mps_load" => guarded(|| {
            let text = text_of(inp);
            let r = match inp["via"].as_str().unwrap_or("raw") {
                "raw" => ommx::mps::load_raw_reader(text.as_bytes()),
                "zipped" => {
                    let mut enc = flate2::write::GzEncoder::new(Vec::new(), flate2::Compression::default());
                    enc.write_all(text.as_bytes()).unwrap();
                    let bytes = enc.finish().unwrap();
                    ommx::mps::load_zipped_reader(bytes.as_slice())
                }
                _ => {
                    let p = scratch(inp, "in.mps.gz");
                    let f = std::fs::File::create(&p).unwrap();
                    let mut enc = flate2::write::GzEncoder::new(f, flate2::Compression::default());
                    enc.write_all(text.as_bytes()).unwrap();
                    enc.finish().unwrap();
                    let r = ommx::mps::load_file(&p);
                    let _ = std::fs::remove_file(&p);
                    r
                }
            };
            match r {
                Ok(i) => json!({"tag":"ok","inst":instance_to(&i)}),
                Err(e) => mps_err(&e),
            }
        }),
        "mps_roundtrip" => guarded(|| {
            let inst = instance_from(&inp["inst"]);
            let p = scratch(inp, "rt.mps.gz");
            let w = ommx::mps::write_file(&inst, &p);
            if let Err(e) = w {
                use ommx::mps::MpsWriteError as W;
                let kind = match &e {
                    W::InvalidConstraintType { .. } => "InvalidConstraintType",
                    W::InvalidObjectiveType { .. } => "InvalidObjectiveType",
                    W::InvalidVariableId(_) => "InvalidVariableId",
                    W::Io(_) => "Io",
                };
                let _ = std::fs::remove_file(&p);
                let name = match &e {
                    W::InvalidConstraintType { name, .. } => name.clone(),
                    _ => String::new(),
                };
                return json!({"tag":"write_err","kind":kind,"name":name,"msg":e.to_string()});
            }
            let mut text = String::new();
            if let Ok(f) = std::fs::File::open(&p) {
                let _ = flate2::read::GzDecoder::new(f).read_to_string(&mut text);
            }
            let r = ommx::mps::load_file(&p);
            let _ = std::fs::remove_file(&p);
            let lines: Vec<&str> = text.lines().collect();
            match r {
                Ok(i) => json!({"tag":"ok","inst":instance_to(&i),"text":lines}),
                Err(e) => {
                    let mut o = mps_err(&e);
                    o["tag"] = json!("load_err");
                    o["text"] = json!(lines);
                    o
                }
            }
        }),
        "qplib_load" => guarded(|| {
            let text = text_of(inp);
            let p = scratch(inp, "in.qplib");
            std::fs::write(&p, text).unwrap();
            let r = ommx::qplib::load_file(&p);
            let _ = std::fs::remove_file(&p);
            match r {
                Ok(i) => json!({"tag":"ok","inst":instance_to(&i)}),
                Err(e) => {
                    let msg = format!("{e:#}");
                    let typed = e.downcast_ref::<ommx::qplib::QplibParseError>().is_some();
                    // "(at line N)" is the Display of QplibParseError
                    let line = msg
                        .rfind("(at line ")
                        .and_then(|i| msg[i + 9..].split(')').next().and_then(|n| n.parse::<u64>().ok()));
                    json!({"tag":"err","msg":msg,"typed":typed,"line": match line { Some(n) => json!([n]), None => json!([]) }})
                }
            }
        }),
        o => panic!("exec_text {o}"),
    };
    let mut e = ev.clone();
    e["out"] = out;
    vec![e]
}
