//! Typed-instance view (C08), artifacts (C20), wire round trips (C07).
use crate::exec::guarded;
use crate::num::from_f64;
use crate::shape::*;
use ommx::artifact::{
    media_types, Artifact, Builder, InstanceAnnotations, ParametricInstanceAnnotations, SampleSetAnnotations,
    SolutionAnnotations,
};
use ommx::parse::RawParseError;
use ommx::v1;
use ommx::Message;
use serde_json::{json, Value};
use std::collections::HashMap;

pub fn handles(n: &str) -> bool {
    matches!(n, "artifact" | "wire_decode" | "wire_encode" | "wire_redecode" | "artifact_file" | "typed_parts")
}

fn typed_fn(f: &ommx::Function) -> Value {
    match f {
        ommx::Function::Constant(c) => json!({"kind":"constant","c":from_f64(*c)}),
        ommx::Function::Linear(l) => linear_to(l),
        ommx::Function::Quadratic(q) => quadratic_to(q),
        ommx::Function::Polynomial(p) => polynomial_to(p),
    }
}
fn typed_kind(k: &ommx::Kind) -> &'static str {
    match k {
        ommx::Kind::Continuous => "continuous",
        ommx::Kind::Integer => "integer",
        ommx::Kind::Binary => "binary",
        ommx::Kind::SemiContinuous => "semi_continuous",
        ommx::Kind::SemiInteger => "semi_integer",
    }
}
fn ostr(o: &Option<String>) -> Value {
    optv(o, |s| json!(s))
}
fn typed_var(d: &ommx::DecisionVariable) -> Value {
    json!({"id": *d.id, "kind": typed_kind(&d.kind),
        "bound": {"lo": from_f64(d.bound.lower()), "hi": from_f64(d.bound.upper())},
        "fixed": optv(&d.substituted_value, |x| from_f64(*x)), "name": ostr(&d.name), "subs": d.subscripts,
        "params": strmap_to(&d.parameters), "desc": ostr(&d.description)})
}
fn typed_con(c: &ommx::Constraint) -> Value {
    json!({"id": *c.id, "eq": match c.equality { ommx::Equality::EqualToZero => "eq", ommx::Equality::LessThanOrEqualToZero => "le" },
        "f": typed_fn(&c.function), "name": ostr(&c.name), "subs": c.subscripts,
        "params": strmap_to(&c.parameters), "desc": ostr(&c.description)})
}
fn rule_name(e: &RawParseError) -> &'static str {
    match e {
        RawParseError::UnsupportedV1Function => "UnsupportedV1Function",
        RawParseError::MissingField { .. } => "MissingField",
        RawParseError::UnspecifiedEnum { .. } => "UnspecifiedEnum",
        RawParseError::DuplicatedVariableID { .. } => "DuplicatedVariableID",
        RawParseError::DuplicatedConstraintID { .. } => "DuplicatedConstraintID",
        RawParseError::UndefinedVariableID { .. } => "UndefinedVariableID",
        RawParseError::UndefinedConstraintID { .. } => "UndefinedConstraintID",
        RawParseError::NonUniqueVariableID { .. } => "NonUniqueVariableID",
        RawParseError::NonUniqueConstraintID { .. } => "NonUniqueConstraintID",
        RawParseError::InvalidBound(_) => "InvalidBound",
        RawParseError::DecodeError(_) => "DecodeError",
    }
}
fn rule_detail(e: &RawParseError) -> Value {
    match e {
        RawParseError::MissingField { message, field } => json!([message, field]),
        RawParseError::UnspecifiedEnum { enum_name } => json!([enum_name]),
        RawParseError::DuplicatedVariableID { id } | RawParseError::UndefinedVariableID { id } | RawParseError::NonUniqueVariableID { id } => json!([(**id).to_string()]),
        RawParseError::DuplicatedConstraintID { id } | RawParseError::UndefinedConstraintID { id } | RawParseError::NonUniqueConstraintID { id } => json!([(**id).to_string()]),
        _ => json!([]),
    }
}

/// TryFrom<v1::Instance> for ommx::Instance, with the typed content read through the guarded accessor
pub fn typed(raw: &Value) -> Value {
    let inst = instance_from(raw);
    match ommx::Instance::try_from(inst) {
        Ok(t) => {
            let (sense, objective, vars, cons, removed, deps, params, _desc, hints) = t.verif_view();
            let mut vs: Vec<_> = vars.values().collect();
            vs.sort_by_key(|d| *d.id);
            let mut cs: Vec<_> = cons.values().collect();
            cs.sort_by_key(|c| *c.id);
            let mut rs: Vec<_> = removed.values().collect();
            rs.sort_by_key(|c| *c.constraint.id);
            let mut ds: Vec<_> = deps.iter().collect();
            ds.sort_by_key(|(k, _)| ***k);
            // keys of the maps must agree with the ids inside
            let keys_ok = vars.iter().all(|(k, v)| *k == v.id)
                && cons.iter().all(|(k, v)| *k == v.id)
                && removed.iter().all(|(k, v)| *k == v.constraint.id);
            json!({"tag":"ok","view":{
                "sense": match sense { ommx::Sense::Minimize => "min", ommx::Sense::Maximize => "max" },
                "objective": typed_fn(objective),
                "vars": vs.iter().map(|d| typed_var(d)).collect::<Vec<_>>(),
                "constraints": cs.iter().map(|c| typed_con(c)).collect::<Vec<_>>(),
                "removed": rs.iter().map(|r| json!({"c": typed_con(&r.constraint), "reason": r.removed_reason, "rparams": strmap_to(&r.removed_reason_parameters)})).collect::<Vec<_>>(),
                "deps": ds.iter().map(|(k, f)| json!([***k, typed_fn(f)])).collect::<Vec<_>>(),
                "params": optv(params, |p| f64map_to(&p.entries)),
                "onehot": hints.one_hot_constraints.iter().map(|o| json!({"cid": *o.id, "vars": o.variables.iter().map(|v| **v).collect::<Vec<u64>>()})).collect::<Vec<_>>(),
                "sos1": hints.sos1_constraints.iter().map(|o| json!({"bin": *o.binary_constraint_id, "bigm": o.big_m_constraint_ids.iter().map(|v| **v).collect::<Vec<u64>>(), "vars": o.variables.iter().map(|v| **v).collect::<Vec<u64>>()})).collect::<Vec<_>>(),
                "keys_ok": keys_ok}})
        }
        Err(e) => {
            let path: Vec<Value> = e.context.iter().rev().map(|c| json!([c.message, c.field])).collect();
            json!({"tag":"err","rule":rule_name(&e.error),"detail":rule_detail(&e.error),"path":path,"msg":e.to_string()})
        }
    }
}

// ------------------------------------------------------------------ artifacts (C20)
fn payload_instance(tok: &Value) -> v1::Instance {
    instance_from(tok)
}
fn set_common_instance_ann(a: &mut InstanceAnnotations, ann: &Value) {
    if let Some(t) = opt(&ann["title"]) { a.set_title(t.as_str().unwrap().into()); }
    if let Some(t) = opt(&ann["license"]) { a.set_license(t.as_str().unwrap().into()); }
    if let Some(t) = opt(&ann["dataset"]) { a.set_dataset(t.as_str().unwrap().into()); }
    if let Some(t) = opt(&ann["authors"]) { a.set_authors(t.as_array().unwrap().iter().map(|s| s.as_str().unwrap().to_string()).collect()); }
    if let Some(t) = opt(&ann["variables"]) { a.set_variables(t.as_u64().unwrap() as usize); }
    if let Some(t) = opt(&ann["constraints"]) { a.set_constraints(t.as_u64().unwrap() as usize); }
    if let Some(t) = opt(&ann["created"]) { a.set_created(parse_time(t.as_str().unwrap())); }
    for kv in ann["other"].as_array().unwrap() { a.set_other(kv[0].as_str().unwrap().into(), kv[1].as_str().unwrap().into()); }
}
fn set_common_pinstance_ann(a: &mut ParametricInstanceAnnotations, ann: &Value) {
    if let Some(t) = opt(&ann["title"]) { a.set_title(t.as_str().unwrap().into()); }
    if let Some(t) = opt(&ann["license"]) { a.set_license(t.as_str().unwrap().into()); }
    if let Some(t) = opt(&ann["dataset"]) { a.set_dataset(t.as_str().unwrap().into()); }
    if let Some(t) = opt(&ann["authors"]) { a.set_authors(t.as_array().unwrap().iter().map(|s| s.as_str().unwrap().to_string()).collect()); }
    if let Some(t) = opt(&ann["variables"]) { a.set_variables(t.as_u64().unwrap() as usize); }
    if let Some(t) = opt(&ann["constraints"]) { a.set_constraints(t.as_u64().unwrap() as usize); }
    if let Some(t) = opt(&ann["created"]) { a.set_created(parse_time(t.as_str().unwrap())); }
    for kv in ann["other"].as_array().unwrap() { a.set_other(kv[0].as_str().unwrap().into(), kv[1].as_str().unwrap().into()); }
}
fn parse_time(s: &str) -> chrono::DateTime<chrono::Local> {
    chrono::DateTime::parse_from_rfc3339(s).expect("rfc3339").with_timezone(&chrono::Local)
}
fn time_to(t: anyhow::Result<chrono::DateTime<chrono::Local>>) -> Value {
    match t {
        Ok(t) => json!([t.with_timezone(&chrono::Utc).to_rfc3339_opts(chrono::SecondsFormat::AutoSi, true)]),
        Err(_) => json!([]),
    }
}
fn res_str<T: ToString, E>(r: Result<T, E>) -> Value {
    match r {
        Ok(s) => json!([s.to_string()]),
        Err(_) => json!([]),
    }
}
fn res_u<E>(r: Result<usize, E>) -> Value {
    match r {
        Ok(s) => json!([s]),
        Err(_) => json!([]),
    }
}
fn strmap_sorted(m: &HashMap<String, String>) -> Value {
    strmap_to(m)
}

fn artifact_event(inp: &Value) -> Value {
    let dir = std::path::PathBuf::from(inp["dir"].as_str().unwrap());
    std::fs::create_dir_all(&dir).ok();
    let path = dir.join(format!("{}.ommx", inp["name"].as_str().unwrap()));
    let _ = std::fs::remove_file(&path);
    let mut builder = Builder::new_archive_unnamed(path.clone()).expect("builder");
    let mut stored: Vec<Value> = Vec::new();
    for l in inp["layers"].as_array().unwrap() {
        let kind = l["kind"].as_str().unwrap();
        let ann = &l["ann"];
        let mut echo = Value::Null;
        let r: anyhow::Result<Vec<u8>> = (|| match kind {
            "instance" => {
                let m = payload_instance(&l["payload"]);
                echo = instance_to(&m);
                let mut a = InstanceAnnotations::default();
                set_common_instance_ann(&mut a, ann);
                let b = m.encode_to_vec();
                builder.add_instance(m, a)?;
                Ok(b)
            }
            "parametric" => {
                let m = pinstance_from(&l["payload"]);
                echo = pinstance_to(&m);
                let mut a = ParametricInstanceAnnotations::default();
                set_common_pinstance_ann(&mut a, ann);
                let b = m.encode_to_vec();
                builder.add_parametric_instance(m, a)?;
                Ok(b)
            }
            "solution" => {
                let m = state_from(&l["payload"]);
                echo = state_to(&m);
                let mut a = SolutionAnnotations::default();
                if let Some(t) = opt(&ann["start"]) { a.set_start(parse_time(t.as_str().unwrap())); }
                if let Some(t) = opt(&ann["end"]) { a.set_end(parse_time(t.as_str().unwrap())); }
                if let Some(t) = opt(&ann["instance"]) { a.set_instance(ommx::ocipkg::Digest::new(t.as_str().unwrap())?); }
                if let Some(t) = opt(&ann["solver"]) { a.set_solver(ommx::ocipkg::Digest::new(t.as_str().unwrap())?); }
                if let Some(t) = opt(&ann["parameters"]) { a.set_parameters(t.clone())?; }
                for kv in ann["other"].as_array().unwrap() { a.set_other(kv[0].as_str().unwrap().into(), kv[1].as_str().unwrap().into()); }
                let b = m.encode_to_vec();
                builder.add_solution(m, a)?;
                Ok(b)
            }
            "sample_set" => {
                let m = sampleset_from(&l["payload"]);
                echo = sampleset_to(&m);
                let mut a = SampleSetAnnotations::default();
                if let Some(t) = opt(&ann["start"]) { a.set_start(parse_time(t.as_str().unwrap())); }
                if let Some(t) = opt(&ann["end"]) { a.set_end(parse_time(t.as_str().unwrap())); }
                if let Some(t) = opt(&ann["instance"]) { a.set_instance(ommx::ocipkg::Digest::new(t.as_str().unwrap())?); }
                if let Some(t) = opt(&ann["solver"]) { a.set_solver(ommx::ocipkg::Digest::new(t.as_str().unwrap())?); }
                if let Some(t) = opt(&ann["parameters"]) { a.set_parameters(t.clone())?; }
                for kv in ann["other"].as_array().unwrap() { a.set_other(kv[0].as_str().unwrap().into(), kv[1].as_str().unwrap().into()); }
                let b = m.encode_to_vec();
                builder.add_sample_set(m, a)?;
                Ok(b)
            }
            k => panic!("layer kind {k}"),
        })();
        match r {
            Ok(b) => stored.push(json!({"tag":"ok","len":b.len(),"bytes":b,"echo":echo})),
            Err(e) => stored.push(json!({"tag":"err","msg":format!("{e:#}")})),
        }
    }
    let built = builder.build();
    if let Err(e) = built {
        return json!({"tag":"err","msg":format!("build: {e:#}"),"stored":stored});
    }
    drop(built);
    read_archive(&path, inp, stored)
}

fn media_kind(m: &ommx::ocipkg::oci_spec::image::MediaType) -> String {
    if *m == media_types::v1_instance() { "instance".into() }
    else if *m == media_types::v1_parametric_instance() { "parametric".into() }
    else if *m == media_types::v1_solution() { "solution".into() }
    else if *m == media_types::v1_sample_set() { "sample_set".into() }
    else { format!("other:{m}") }
}

fn read_archive(path: &std::path::Path, inp: &Value, stored: Vec<Value>) -> Value {
    let mut art = match Artifact::from_oci_archive(path) {
        Ok(a) => a,
        Err(e) => return json!({"tag":"err","msg":format!("open: {e:#}"),"stored":stored}),
    };
    let manifest = match art.get_manifest() {
        Ok(m) => m,
        Err(e) => return json!({"tag":"manifest_err","msg":format!("{e:#}"),"stored":stored}),
    };
    let mut layers = Vec::new();
    let descs: Vec<_> = manifest.layers().to_vec();
    for d in &descs {
        let digest = ommx::ocipkg::Digest::new(d.digest()).expect("digest");
        let ann: HashMap<String, String> = d.annotations().clone().unwrap_or_default();
        // read the layer as each of the four kinds
        let as_inst = guarded(|| match art.get_instance(&digest) {
            Ok((m, a)) => json!({"tag":"ok","msg":instance_to(&m),"bytes":m.encode_to_vec(),
                "acc":{"title":res_str(a.title()),"license":res_str(a.license()),"dataset":res_str(a.dataset()),
                       "authors": match a.authors() { Ok(it) => json!([it.collect::<Vec<_>>()]), Err(_) => json!([]) },
                       "variables":res_u(a.variables()),"constraints":res_u(a.constraints()),"created":time_to(a.created())}}),
            Err(e) => json!({"tag":"err","msg":format!("{e:#}")}),
        });
        let as_pinst = guarded(|| match art.get_parametric_instance(&digest) {
            Ok((m, a)) => json!({"tag":"ok","msg":pinstance_to(&m),"bytes":m.encode_to_vec(),
                "acc":{"title":res_str(a.title()),"license":res_str(a.license()),"dataset":res_str(a.dataset()),
                       "authors": match a.authors() { Ok(it) => json!([it.collect::<Vec<_>>()]), Err(_) => json!([]) },
                       "variables":res_u(a.variables()),"constraints":res_u(a.constraints()),"created":time_to(a.created())}}),
            Err(e) => json!({"tag":"err","msg":format!("{e:#}")}),
        });
        let as_sol = guarded(|| match art.get_solution(&digest) {
            Ok((m, a)) => json!({"tag":"ok","msg":state_to(&m),"bytes":m.encode_to_vec(),
                "acc":{"start":time_to(a.start()),"end":time_to(a.end()),"instance":res_str(a.instance()),"solver":res_str(a.solver()),
                       "parameters": match a.parameters::<Value>() { Ok(v) => json!([v]), Err(_) => json!([]) }}}),
            Err(e) => json!({"tag":"err","msg":format!("{e:#}")}),
        });
        let as_ss = guarded(|| match art.get_sample_set(&digest) {
            Ok((m, a)) => json!({"tag":"ok","msg":sampleset_to(&m),"bytes":m.encode_to_vec(),
                "acc":{"start":time_to(a.start()),"end":time_to(a.end()),"instance":res_str(a.instance()),"solver":res_str(a.solver()),
                       "parameters": match a.parameters::<Value>() { Ok(v) => json!([v]), Err(_) => json!([]) }}}),
            Err(e) => json!({"tag":"err","msg":format!("{e:#}")}),
        });
        let raw = guarded(|| match art.get_layer(&digest) {
            Ok((dd, blob)) => json!({"tag":"ok","kind":media_kind(dd.media_type()),"bytes":blob}),
            Err(e) => json!({"tag":"err","msg":format!("{e:#}")}),
        });
        layers.push(json!({"digest": d.digest(), "kind": media_kind(d.media_type()), "size": d.size(),
            "ann": strmap_sorted(&ann), "raw": raw,
            "as": {"instance": as_inst, "parametric": as_pinst, "solution": as_sol, "sample_set": as_ss}}));
    }
    // unknown digest
    let unknown = ommx::ocipkg::Digest::new("sha256:0000000000000000000000000000000000000000000000000000000000000000").unwrap();
    // ... and near misses of every stored digest: a truncated / abbreviated encoded part (tail, head, the empty string),
    // another algorithm, one changed character, a doubled encoded part. None of them names a stored layer.
    let mut probes = vec![unknown];
    for l in &layers {
        let full = l["digest"].as_str().unwrap_or("");
        if let Some((alg, hex)) = full.split_once(':') {
            let n = hex.len();
            let mut cands: Vec<String> = vec![];
            if n >= 8 {
                cands.push(format!("{alg}:{}", &hex[n - 8..]));
                cands.push(format!("{alg}:{}", &hex[n - 1..]));
                cands.push(format!("{alg}:{}", &hex[..8]));
                cands.push(format!("{alg}:{}", &hex[1..]));
                cands.push(format!("{alg}:{}", &hex[..n - 1]));
                cands.push(format!("sha512:{hex}"));
                cands.push(format!("{alg}:{hex}{hex}"));
                cands.push(format!("{alg}:0{hex}"));
                let last = if hex.ends_with('0') { '1' } else { '0' };
                cands.push(format!("{alg}:{}{last}", &hex[..n - 1]));
                let first = if hex.starts_with('0') { '1' } else { '0' };
                cands.push(format!("{alg}:{first}{}", &hex[1..]));
            }
            let stored: Vec<&str> = layers.iter().filter_map(|x| x["digest"].as_str()).collect();
            for c in cands {
                if stored.contains(&c.as_str()) {
                    continue;
                }
                if let Ok(d) = ommx::ocipkg::Digest::new(&c) {
                    probes.push(d);
                }
            }
        }
    }
    let unk = guarded(|| {
        let mut all = json!({"instance": true, "parametric": true, "solution": true, "sample_set": true, "layer": true});
        for unknown in &probes {
            let one = json!({
                "instance": art.get_instance(unknown).is_err(), "parametric": art.get_parametric_instance(unknown).is_err(),
                "solution": art.get_solution(unknown).is_err(), "sample_set": art.get_sample_set(unknown).is_err(),
                "layer": art.get_layer(unknown).is_err()});
            for k in ["instance", "parametric", "solution", "sample_set", "layer"] {
                if one[k] != json!(true) {
                    all[k] = json!(false);
                }
            }
        }
        all["probes"] = json!(probes.len());
        all
    });
    let by_type = |art: &mut Artifact<ommx::ocipkg::image::OciArchive>, m| -> Value {
        match art.get_layer_descriptors(&m) {
            Ok(v) => json!(v.iter().map(|d| d.digest().to_string()).collect::<Vec<_>>()),
            Err(e) => json!({"err":format!("{e:#}")}),
        }
    };
    let descriptors = json!({
        "instance": by_type(&mut art, media_types::v1_instance()),
        "parametric": by_type(&mut art, media_types::v1_parametric_instance()),
        "solution": by_type(&mut art, media_types::v1_solution()),
        "sample_set": by_type(&mut art, media_types::v1_sample_set())});
    let insts = guarded(|| match art.get_instances() { Ok(v) => json!(v.iter().map(|(d, _)| d.digest().to_string()).collect::<Vec<_>>()), Err(e) => json!({"err":format!("{e:#}")}) });
    let sols = guarded(|| match art.get_solutions() { Ok(v) => json!(v.iter().map(|(d, _)| d.digest().to_string()).collect::<Vec<_>>()), Err(e) => json!({"err":format!("{e:#}")}) });
    if !inp["keep"].as_bool().unwrap_or(false) {
        let _ = std::fs::remove_file(path);
    }
    json!({"tag":"ok","stored":stored,"layers":layers,"unknown_digest_errors":unk,"descriptors":descriptors,
           "artifact_type": manifest.artifact_type().as_ref().map(|t| t.to_string()),
           "get_instances": insts, "get_solutions": sols})
}

/// the bytes are stored as an artifact layer of the matching media type (exactly as another producer's bytes arrive) and
/// read back through the typed getter; the message the getter returns is re-encoded, as `wire_decode` does
fn wire_decode_via_artifact(ty: &str, bytes: &[u8], dir: &str) -> Value {
    static N: std::sync::atomic::AtomicU64 = std::sync::atomic::AtomicU64::new(0);
    let dir = std::env::current_dir().expect("cwd").join(dir);
    std::fs::create_dir_all(&dir).ok();
    let path = dir.join(format!("wire-{}-{}.ommx", std::process::id(), N.fetch_add(1, std::sync::atomic::Ordering::SeqCst)));
    let _ = std::fs::remove_file(&path);
    let t = ty.replace('_', "").to_lowercase();
    let media = match t.as_str() {
        "instance" => media_types::v1_instance(),
        "parametricinstance" => media_types::v1_parametric_instance(),
        "state" => media_types::v1_solution(),
        "sampleset" => media_types::v1_sample_set(),
        _ => return json!({"tag":"unknown_type"}),
    };
    let r: anyhow::Result<Value> = (|| {
        let mut b = Builder::new_archive_unnamed(path.clone())?;
        let desc = b.add_layer(media, bytes, HashMap::new())?;
        b.build()?;
        let digest = ommx::ocipkg::Digest::new(desc.digest())?;
        let mut a = Artifact::from_oci_archive(&path)?;
        let out = match t.as_str() {
            "instance" => a.get_instance(&digest)?.0.encode_to_vec(),
            "parametricinstance" => a.get_parametric_instance(&digest)?.0.encode_to_vec(),
            "state" => a.get_solution(&digest)?.0.encode_to_vec(),
            _ => a.get_sample_set(&digest)?.0.encode_to_vec(),
        };
        Ok(json!({"tag":"ok","bytes":out,"stable":true,"debug_len":0}))
    })();
    let _ = std::fs::remove_file(&path);
    r.unwrap_or_else(|e| json!({"tag":"err","msg":format!("{e:#}")}))
}

fn foreign_archive(inp: &Value) -> Value {
    use ommx::ocipkg::image::{OciArchiveBuilder, OciArtifactBuilder};
    use ommx::ocipkg::oci_spec::image::MediaType;
    let dir = std::path::PathBuf::from(inp["dir"].as_str().unwrap());
    std::fs::create_dir_all(&dir).ok();
    let path = dir.join(format!("{}.tar", inp["name"].as_str().unwrap()));
    let _ = std::fs::remove_file(&path);
    let ty = inp["artifact_type"].as_str().unwrap().to_string();
    let r: anyhow::Result<()> = (|| {
        if ty.is_empty() {
            // an ordinary OCI image: config + one layer (carrying an OMMX layer media type), NO artifactType in the manifest
            use ommx::ocipkg::image::ImageBuilder;
            use ommx::ocipkg::oci_spec::image::{DescriptorBuilder, ImageManifestBuilder};
            let mut archive = OciArchiveBuilder::new_unnamed(path.clone())?;
            let (digest, size) = archive.add_blob(br#"{"architecture":"amd64","os":"linux","rootfs":{"type":"layers","diff_ids":[]}}"#)?;
            let config = DescriptorBuilder::default().media_type(MediaType::ImageConfig).digest(digest.to_string()).size(size).build()?;
            let (digest, size) = archive.add_blob(&v1::Instance::default().encode_to_vec())?;
            let layer = DescriptorBuilder::default().media_type(media_types::v1_instance()).digest(digest.to_string()).size(size).build()?;
            let manifest = ImageManifestBuilder::default().schema_version(2_u32).media_type(MediaType::ImageManifest)
                .config(config).layers(vec![layer]).build()?;
            archive.build(manifest)?;
            return Ok(());
        }
        let archive = OciArchiveBuilder::new_unnamed(path.clone())?;
        let mut b = OciArtifactBuilder::new(archive, MediaType::Other(ty))?;
        b.add_layer(media_types::v1_instance(), &v1::Instance::default().encode_to_vec(), HashMap::new())?;
        b.build()?;
        Ok(())
    })();
    if let Err(e) = r {
        return json!({"tag":"harness_err","msg":format!("{e:#}")});
    }
    let out = guarded(|| match Artifact::from_oci_archive(&path) {
        Ok(mut a) => match a.get_manifest() {
            Ok(_) => json!({"tag":"ok","manifest":"ok"}),
            Err(e) => json!({"tag":"ok","manifest":"err","msg":format!("{e:#}"),
                "get_instances_err": a.get_layer_descriptors(&media_types::v1_instance()).is_err()}),
        },
        Err(e) => json!({"tag":"err","msg":format!("{e:#}")}),
    });
    let _ = std::fs::remove_file(&path);
    out
}

// ------------------------------------------------------------------ wire (C07)
macro_rules! wire_types {
    ($($name:literal => $ty:ty),* $(,)?) => {
        pub fn wire_type_names() -> Vec<&'static str> { vec![$($name),*] }
        /// decode bytes as the named prost type, re-encode
        fn norm_ty(ty: &str) -> String { ty.replace('_', "").to_lowercase() }
        fn wire_decode(ty: &str, bytes: &[u8]) -> Value {
            let ty = norm_ty(ty);
            match ty.as_str() {
                $(x if x == norm_ty($name) => match <$ty>::decode(bytes) {
                    Ok(m) => {
                        let b = m.encode_to_vec();
                        let again = <$ty>::decode(b.as_slice()).map(|m2| m2 == m).unwrap_or(false);
                        json!({"tag":"ok","bytes":b,"stable":again,"debug_len":format!("{m:?}").len()})
                    }
                    Err(e) => json!({"tag":"err","msg":e.to_string()}),
                },)*
                _ => json!({"tag":"unknown_type"}),
            }
        }
        /// decode `a` and `b` as the named type and compare with prost's derived ==
        fn wire_equal(ty: &str, a: &[u8], b: &[u8]) -> Value {
            let ty = norm_ty(ty);
            match ty.as_str() {
                $(x if x == norm_ty($name) => match (<$ty>::decode(a), <$ty>::decode(b)) {
                    (Ok(x), Ok(y)) => json!({"tag":"ok","equal": x == y}),
                    (Err(e), _) | (_, Err(e)) => json!({"tag":"err","msg":e.to_string()}),
                },)*
                _ => json!({"tag":"unknown_type"}),
            }
        }
    };
}
wire_types! {
    "Linear" => v1::Linear, "Linear.Term" => v1::linear::Term, "Monomial" => v1::Monomial, "Polynomial" => v1::Polynomial,
    "Quadratic" => v1::Quadratic, "Function" => v1::Function, "Constraint" => v1::Constraint,
    "EvaluatedConstraint" => v1::EvaluatedConstraint, "RemovedConstraint" => v1::RemovedConstraint,
    "OneHot" => v1::OneHot, "Sos1" => v1::Sos1, "ConstraintHints" => v1::ConstraintHints, "Bound" => v1::Bound,
    "DecisionVariable" => v1::DecisionVariable, "Parameters" => v1::Parameters, "Instance" => v1::Instance,
    "Instance.Description" => v1::instance::Description, "Parameter" => v1::Parameter,
    "ParametricInstance" => v1::ParametricInstance, "State" => v1::State, "Solution" => v1::Solution,
    "Infeasible" => v1::Infeasible, "Unbounded" => v1::Unbounded, "Result" => v1::Result,
    "Samples" => v1::Samples, "Samples.SamplesEntry" => v1::samples::SamplesEntry,
    "SampledValues" => v1::SampledValues, "SampledValues.SampledValuesEntry" => v1::sampled_values::SampledValuesEntry,
    "SampledDecisionVariable" => v1::SampledDecisionVariable, "SampledConstraint" => v1::SampledConstraint,
    "SampleSet" => v1::SampleSet,
}
fn bytes_from(v: &Value) -> Vec<u8> {
    v.as_array().unwrap().iter().map(|b| b.as_u64().unwrap() as u8).collect()
}

pub fn apply_one(ev: &Value) -> Vec<Value> {
    let name = ev["ev"].as_str().unwrap();
    let inp = &ev["in"];
    let out = match name {
        "artifact" => guarded(|| if inp.get("foreign").and_then(|b| b.as_bool()).unwrap_or(false) { foreign_archive(inp) } else { artifact_event(inp) }),
        "artifact_file" => guarded(|| {
            let mut i2 = inp.clone();
            i2["keep"] = json!(true);
            read_archive(std::path::Path::new(inp["path"].as_str().unwrap()), &i2, vec![])
        }),
        "wire_decode" => guarded(|| {
            let (ty, bytes) = (inp["type"].as_str().unwrap(), bytes_from(&inp["bytes"]));
            if inp.get("via").and_then(|v| v.as_str()) == Some("artifact") {
                wire_decode_via_artifact(ty, &bytes, inp["dir"].as_str().unwrap_or("work/C07/arch"))
            } else {
                wire_decode(ty, &bytes)
            }
        }),
        "wire_redecode" => guarded(|| wire_equal(inp["type"].as_str().unwrap(), &bytes_from(&inp["a"]), &bytes_from(&inp["b"]))),
        "wire_encode" => guarded(|| {
            // encode a message given as a JSON shape with the SDK's encoder
            let b = match inp["type"].as_str().unwrap() {
                "Function" => function_from(&inp["msg"]).encode_to_vec(),
                "Instance" => instance_from(&inp["msg"]).encode_to_vec(),
                "ParametricInstance" => pinstance_from(&inp["msg"]).encode_to_vec(),
                "State" => state_from(&inp["msg"]).encode_to_vec(),
                "Samples" => samples_from(&inp["msg"]).encode_to_vec(),
                "SampleSet" => sampleset_from(&inp["msg"]).encode_to_vec(),
                "Solution" => {
                    let inst = instance_from(&inp["msg"]["inst"]);
                    use ommx::Evaluate;
                    match inst.evaluate(&state_from(&inp["msg"]["st"])) {
                        Ok((s, _)) => s.encode_to_vec(),
                        Err(e) => return json!({"tag":"err","msg":format!("{e:#}")}),
                    }
                }
                t => return json!({"tag":"unknown_type","type":t}),
            };
            // decode what was written with the named prost type: equal to the original? re-encode
            let chk = wire_decode(inp["wtype"].as_str().unwrap(), &b);
            json!({"tag":"ok","bytes":b,"stable": chk["stable"], "again": chk["bytes"], "redecode": chk["tag"]})
        }),
        "typed_parts" => guarded(|| {
            use ommx::parse::Parse;
            // typed DecisionVariable / Constraint through the public Parse impls
            let d = var_from(&inp["var"]);
            match d.parse(&()) {
                Ok(t) => json!({"tag":"ok","var":typed_var(&t)}),
                Err(e) => json!({"tag":"err","rule":rule_name(&e.error),"msg":e.to_string()}),
            }
        }),
        o => panic!("exec_misc {o}"),
    };
    let mut e = ev.clone();
    e["out"] = out;
    vec![e]
}
