//! Seeded random generators for instance-level events (direction B).
use crate::gen::{q, FnGen};
use crate::num::Rng;
use serde_json::{json, Value};

fn ev(name: &str, case: String, inp: Value) -> Value {
    json!({"ev": name, "case": case, "src": "drive", "in": inp})
}
fn meta(r: &mut Rng, tag: &str) -> (Value, Value, Value, Value) {
    let name = if r.chance(1, 2) { json!([format!("{tag}{}", r.below(5))]) } else { json!([]) };
    let subs: Vec<i64> = (0..r.below(3)).map(|_| r.range(-2, 9)).collect();
    let params = if r.chance(1, 4) { json!([["k", format!("v{}", r.below(3))]]) } else { json!([]) };
    let desc = if r.chance(1, 5) { json!(["d"]) } else { json!([]) };
    (name, json!(subs), params, desc)
}
pub struct VarSpec {
    pub id: u64,
    pub kind: &'static str,
    pub lo: Option<i64>, // None = -inf (when bound present)
    pub hi: Option<i64>,
    pub has_bound: bool,
}
impl VarSpec {
    pub fn eff(&self) -> (Option<i64>, Option<i64>) {
        if self.has_bound {
            (self.lo, self.hi)
        } else if self.kind == "binary" {
            (Some(0), Some(1))
        } else {
            (None, None)
        }
    }
    pub fn to_json(&self, r: &mut Rng) -> Value {
        let (name, subs, params, desc) = meta(r, "x");
        let bound = if self.has_bound {
            json!([{"lo": self.lo.map(|v| json!([v, 1])).unwrap_or(json!([-1, 0])),
                    "hi": self.hi.map(|v| json!([v, 1])).unwrap_or(json!([1, 0]))}])
        } else {
            json!([])
        };
        json!({"id": self.id, "kind": self.kind, "bound": bound, "fixed": [], "name": name, "subs": subs, "params": params, "desc": desc})
    }
    /// an in-bound value (halves for continuous, integers otherwise)
    pub fn value(&self, r: &mut Rng) -> Value {
        let (lo, hi) = self.eff();
        let l = lo.unwrap_or(-3).max(-3);
        let h = hi.unwrap_or(3).min(l + 6).max(l);
        let l = l.min(h);
        if self.kind == "continuous" && h > l && r.chance(1, 2) {
            q(r.range(2 * l, 2 * h), 2)
        } else {
            q(r.range(l, h), 1)
        }
    }
}
pub fn rand_vars(r: &mut Rng, ids: &[u64], int_only: bool, boxed: bool) -> Vec<VarSpec> {
    ids.iter()
        .map(|&id| {
            let kind = if int_only { *r.pick(&["binary", "integer", "integer"]) } else { *r.pick(&["binary", "integer", "continuous", "continuous"]) };
            let shape = if boxed { 1 } else { r.below(6) };
            let (has_bound, lo, hi) = match (kind, shape) {
                ("binary", 0) => (false, None, None),
                ("binary", 2) if !boxed => (true, Some(0), Some(0)), // explicit tightened bounds of a binary
                ("binary", 3) if !boxed => (true, Some(1), Some(1)),
                ("binary", _) => (true, Some(0), Some(1)),
                (_, 0) => (false, None, None),
                (_, 1) | (_, 2) => {
                    let l = r.range(-2, 1);
                    (true, Some(l), Some(l + r.range(0, 3)))
                }
                (_, 3) => (true, Some(r.range(-2, 1)), None),
                (_, 4) => (true, None, Some(r.range(0, 3))),
                _ => (true, None, None),
            };
            VarSpec { id, kind, lo, hi, has_bound }
        })
        .collect()
}
pub struct Inst {
    pub vars: Vec<VarSpec>,
    pub json: Value,
    pub used: Vec<u64>,
    pub active: Vec<u64>,
    pub removed: Vec<u64>,
    pub deps: Vec<u64>,
    /// a variable that already carries a fixed value in the generated instance
    pub prefixed: Option<(u64, Value)>,
}
pub struct InstOpts {
    pub max_deg: u64,
    pub int_only: bool,
    pub boxed: bool,
    pub with_deps: bool,
    pub with_removed: bool,
    pub max_cons: u64,
    pub coef_den: i64,
}
pub const DEFAULT: InstOpts = InstOpts { max_deg: 2, int_only: false, boxed: false, with_deps: true, with_removed: true, max_cons: 4, coef_den: 2 };

pub fn rand_instance(r: &mut Rng, o: &InstOpts) -> Inst {
    let pool = [1u64, 2, 3, 4, 6, 9];
    let nv = 2 + r.below(3) as usize;
    let mut ids: Vec<u64> = pool.to_vec();
    r.shuffle(&mut ids);
    let mut used: Vec<u64> = ids[..nv].to_vec();
    used.sort();
    let irrelevant: Vec<u64> = if r.chance(1, 2) { vec![ids[nv]] } else { vec![] };
    let dep_ids: Vec<u64> = if o.with_deps && r.chance(1, 3) { ids[nv + 1..(nv + 1 + 1 + r.below(2) as usize).min(ids.len())].to_vec() } else { vec![] };
    let mut all: Vec<u64> = used.iter().chain(irrelevant.iter()).chain(dep_ids.iter()).cloned().collect();
    all.sort();
    let vars = rand_vars(r, &all, o.int_only, o.boxed);
    let g = FnGen { ids: used.clone(), coef_den: o.coef_den, coef_max: 3 * o.coef_den, max_terms: 4, max_deg: o.max_deg };
    let objective = if r.chance(1, 12) { json!([]) } else { json!([g.function(r, false)]) };
    let cpool = [10u64, 11, 12, 20, 35];
    let nc = r.below(o.max_cons + 1) as usize;
    let mut cids: Vec<u64> = cpool.to_vec();
    r.shuffle(&mut cids);
    let mut active = vec![];
    let mut removed = vec![];
    let mut cons_json = vec![];
    let mut removed_json = vec![];
    for &cid in &cids[..nc] {
        let (name, subs, params, desc) = meta(r, "c");
        let f = if r.chance(1, 12) { json!([]) } else { json!([g.function(r, false)]) };
        let c = json!({"id": cid, "eq": if r.chance(1, 2) { "eq" } else { "le" }, "f": f, "name": name, "subs": subs, "params": params, "desc": desc});
        if o.with_removed && r.chance(1, 3) {
            removed.push(cid);
            let rp = if r.chance(1, 2) { json!([["a", "1"], ["b", "x"]]) } else { json!([]) };
            // the removal reason is free text; the empty string is a legal one
            let reason = match r.below(7) { 0 => String::new(), k => format!("reason{}", k % 3) };
            removed_json.push(json!({"c": [c], "reason": reason, "rparams": rp}));
        } else {
            active.push(cid);
            cons_json.push(c);
        }
    }
    // dependencies: dependent d_k defined over used variables and earlier dependents (a chain), acyclic
    let mut deps_json = vec![];
    let mut avail = used.clone();
    for &d in &dep_ids {
        let gd = FnGen { ids: avail.clone(), coef_den: 2, coef_max: 4, max_terms: 2, max_deg: 2 };
        deps_json.push(json!([d, gd.function(r, false)]));
        avail.push(d);
    }
    r.shuffle(&mut deps_json);
    let mut vj: Vec<Value> = vars.iter().map(|v| v.to_json(r)).collect();
    // sometimes a variable the problem does not use carries a previously fixed value (substituted_value);
    // states may still mention it, with the same or another in-bound value
    let mut prefixed = None;
    if !irrelevant.is_empty() && r.chance(1, 3) {
        let vid = irrelevant[0];
        let spec = vars.iter().find(|v| v.id == vid).unwrap();
        let val = spec.value(r);
        prefixed = Some((vid, val.clone()));
        for v in vj.iter_mut() {
            if v["id"] == vid {
                v["fixed"] = json!([val]);
            }
        }
    }
    if r.chance(1, 3) {
        r.shuffle(&mut vj);
    }
    let json = json!({"sense": if r.chance(1, 2) { "min" } else { "max" }, "vars": vj, "objective": objective,
        "constraints": cons_json, "removed": removed_json, "deps": deps_json, "params": [], "hints": [], "description": [], "parameters": []});
    Inst { vars, json, used, active, removed, deps: dep_ids, prefixed }
}
impl Inst {
    /// in-bound state over all non-dependent variables (optionally omitting irrelevant ones)
    pub fn state(&self, r: &mut Rng, omit_irrelevant: bool) -> Vec<(u64, Value)> {
        self.vars
            .iter()
            .filter(|v| !self.deps.contains(&v.id))
            .filter(|v| !(omit_irrelevant && !self.used.contains(&v.id)))
            .map(|v| (v.id, v.value(r)))
            .collect()
    }
}
fn st_json(s: &[(u64, Value)]) -> Value {
    Value::Array(s.iter().map(|(i, v)| json!([i, v])).collect())
}

pub fn generate(group: &str, r: &mut Rng, n: usize) -> Vec<Value> {
    let mut out = Vec::new();
    match group {
        "evaluate" => {
            for k in 0..n {
                let inst = rand_instance(r, &DEFAULT);
                let omit = r.chance(1, 2);
                let mut st = inst.state(r, omit);
                match r.below(8) {
                    0 if !st.is_empty() => {
                        // drop one variable (rejected iff it is used)
                        let i = r.below(st.len() as u64) as usize;
                        st.remove(i);
                    }
                    1 if !st.is_empty() => {
                        // move one variable out of its bound by 1 (rejected iff the bound is finite on that side)
                        let i = r.below(st.len() as u64) as usize;
                        let v = inst.vars.iter().find(|v| v.id == st[i].0).unwrap();
                        let (lo, hi) = v.eff();
                        if let Some(h) = hi {
                            st[i].1 = q(h + 1, 1);
                        } else if let Some(l) = lo {
                            st[i].1 = q(l - 1, 1);
                        }
                    }
                    2 => st.push((77, q(5, 1))), // an id the instance does not define
                    _ => {}
                }
                out.push(ev("evaluate", format!("d-evaluate-{k}"), json!({"inst": inst.json, "st": st_json(&st)})));
            }
        }
        "commute" => {
            for k in 0..n {
                let inst = rand_instance(r, &InstOpts { max_deg: 3, ..DEFAULT });
                let mut st = inst.state(r, false);
                // a combined assignment is one assignment: where the instance already records a fixed value the
                // state agrees with it (a state that contradicts a recorded value is outside C03's domain; the
                // `evaluate` group keeps generating those and judges which value is reported)
                if let Some((vid, val)) = &inst.prefixed {
                    for e in st.iter_mut() {
                        if e.0 == *vid {
                            e.1 = val.clone();
                        }
                    }
                }
                r.shuffle(&mut st);
                let cut = r.below(st.len() as u64 + 1) as usize;
                let s1 = &st[..cut];
                let s2 = &st[cut..];
                let cut2 = r.below(s1.len() as u64 + 1) as usize;
                out.push(ev("commute", format!("d-commute-{k}"),
                    json!({"inst": inst.json, "s1": st_json(s1), "s2": st_json(s2), "s1a": st_json(&s1[..cut2])})));
                // the same step as a separately judged history: partial evaluation(s) then evaluation
                let mut ops = vec![json!({"op":"inst_partial","st":st_json(&s1[..cut2])}), json!({"op":"inst_partial","st":st_json(&s1[cut2..])}),
                                   json!({"op":"evaluate","st":st_json(s2)})];
                if r.chance(1, 2) {
                    ops.remove(0);
                    ops[0] = json!({"op":"inst_partial","st":st_json(s1)});
                }
                out.push(json!({"ev":"seq","case":format!("d-commute-seq-{k}"),"src":"drive","in":{"inst":inst.json,"ops":ops}}));
            }
        }
        "inst_subst" => {
            for k in 0..n {
                let inst = rand_instance(r, &InstOpts { with_deps: false, ..DEFAULT });
                // replace 1..2 used variables by functions of the remaining ones; optionally a second substitution (chain)
                let mut used = inst.used.clone();
                r.shuffle(&mut used);
                let m = (1 + r.below(2) as usize).min(used.len().saturating_sub(1)).max(1).min(used.len());
                let (rep, rest) = used.split_at(m);
                let rest: Vec<u64> = rest.to_vec();
                let mut ops = vec![];
                if rest.is_empty() {
                    let repl: Vec<Value> = rep.iter().map(|i| json!([i, {"kind":"constant","c":q(r.range(-2, 2), 1)}])).collect();
                    ops.push(json!({"op":"inst_subst","repl":repl}));
                } else {
                    let gr = FnGen { ids: rest.clone(), coef_den: 1, coef_max: 2, max_terms: 2, max_deg: 1 };
                    let repl: Vec<Value> = rep.iter().map(|i| json!([i, gr.linear(r)])).collect();
                    ops.push(json!({"op":"inst_subst","repl":repl}));
                    if rest.len() >= 2 && r.chance(1, 2) {
                        // chain: replace one of the remaining variables as well
                        let gr2 = FnGen { ids: rest[1..].to_vec(), coef_den: 1, coef_max: 2, max_terms: 2, max_deg: 1 };
                        ops.push(json!({"op":"inst_subst","repl":[[rest[0], gr2.linear(r)]]}));
                    }
                }
                // state over variables that are not replaced (values are unconstrained by bounds of replaced ones)
                let replaced: Vec<u64> = ops.iter().flat_map(|o| o["repl"].as_array().unwrap().iter().map(|p| p[0].as_u64().unwrap())).collect();
                let st: Vec<(u64, Value)> = inst.vars.iter().filter(|v| !replaced.contains(&v.id)).map(|v| (v.id, v.value(r))).collect();
                ops.push(json!({"op":"evaluate","st":st_json(&st)}));
                out.push(json!({"ev":"seq","case":format!("d-subst-seq-{k}"),"src":"drive","in":{"inst":inst.json,"ops":ops}}));
            }
        }
        "chain_encode" => {
            for k in 0..n {
                let mut inst = rand_instance(r, &InstOpts { with_deps: false, ..DEFAULT });
                let vid = inst.used[0];
                let lo = r.range(-6, 6);
                let w = r.range(0, 12);
                for v in inst.json["vars"].as_array_mut().unwrap() {
                    if v["id"] == vid {
                        v["kind"] = json!("integer");
                        v["bound"] = json!([{"lo": q(2 * lo + r.range(-1, 0), 2), "hi": q(2 * (lo + w) + r.range(0, 1), 2)}]);
                    }
                }
                let st: Vec<(u64, Value)> = inst.vars.iter().filter(|v| v.id != vid).map(|v| (v.id, v.value(r))).collect();
                out.push(json!({"ev":"chain_encode","case":format!("d-chainenc-{k}"),"src":"drive",
                    "in":{"inst":inst.json,"vid":vid,"bits":r.below(32),"st":st_json(&st)}}));
            }
        }
        "deps_order" => {
            for k in 0..n {
                // dependency graphs on <= 5 dependents: chains, diamonds, cycles, dangling references
                let nd = 2 + r.below(4);
                let base = [1u64, 2];
                let dids: Vec<u64> = (0..nd).map(|i| 10 + i).collect();
                let mut deps = vec![];
                for (i, d) in dids.iter().enumerate() {
                    let mut cand: Vec<u64> = base.to_vec();
                    match r.below(10) {
                        0 => cand.extend(dids.iter().cloned()),              // anything: cycles / self loops possible
                        1 => cand.push(99),                                  // may refer to an id without value
                        _ => cand.extend(dids[..i].iter().cloned()),         // acyclic
                    }
                    let gd = FnGen { ids: cand, coef_den: 1, coef_max: 2, max_terms: 2, max_deg: 2 };
                    deps.push(json!([d, gd.function(r, false)]));
                }
                r.shuffle(&mut deps);
                let mut vars: Vec<Value> = vec![];
                for id in base.iter().chain(dids.iter()).chain([99u64].iter()) {
                    vars.push(json!({"id": id, "kind": "continuous", "bound": [], "fixed": [], "name": [], "subs": [], "params": [], "desc": []}));
                }
                let inst = json!({"sense":"min","vars":vars,"objective":[{"kind":"linear","terms":[{"id":1,"c":[1,1]}],"constant":[0,1]}],
                    "constraints":[],"removed":[],"deps":deps,"params":[],"hints":[],"description":[],"parameters":[]});
                let st = json!([[1, q(r.range(-2, 2), 1)], [2, q(r.range(-2, 2), 1)]]);
                out.push(ev("deps_order", format!("d-depsorder-{k}"), json!({"inst": inst, "st": st, "tries": 120})));
            }
        }
        "relax_restore" => {
            for k in 0..n {
                let inst = rand_instance(r, &InstOpts { max_cons: 5, ..DEFAULT });
                let mut ops = vec![];
                let mut cids: Vec<u64> = inst.active.iter().chain(inst.removed.iter()).cloned().collect();
                cids.push(99);
                let len = 1 + r.below(8);
                for _ in 0..len {
                    let c = *r.pick(&cids);
                    match r.below(5) {
                        0 | 1 => {
                            let rp = if r.chance(1, 2) { json!([["k", "v"]]) } else { json!([]) };
                            let reason = if r.chance(1, 4) { String::new() } else { format!("why{}", r.below(2)) };
                            ops.push(json!({"op":"relax","cid":c,"reason":reason,"rparams":rp}))
                        }
                        2 | 3 => ops.push(json!({"op":"restore","cid":c})),
                        _ => {
                            let st = inst.state(r, false);
                            ops.push(json!({"op":"evaluate","st":st_json(&st)}))
                        }
                    }
                }
                out.push(json!({"ev":"seq","case":format!("d-relax-seq-{k}"),"src":"drive","in":{"inst":inst.json,"ops":ops}}));
            }
        }
        "mixed" => {
            // histories over the whole transformation API: every step is judged by its own clauses against the instance the
            // previous steps produced.  The driver tracks which of the initial variables are still free; arguments that
            // depend on variables created on the way (slack, log-encoding bits) are completed by the harness.
            for k in 0..n {
                let int_only = r.chance(3, 4);
                let inst = rand_instance(r, &InstOpts { max_deg: 2, int_only, boxed: true, with_deps: false, with_removed: true, max_cons: 3, coef_den: 1 });
                let mut free: Vec<u64> = inst.vars.iter().map(|v| v.id).filter(|id| inst.prefixed.as_ref().map(|p| p.0 != *id).unwrap_or(true)).collect();
                // the driver's own bookkeeping of which list a constraint is in (only used to aim the arguments)
                let mut act: Vec<u64> = inst.active.clone();
                let mut rem: Vec<u64> = inst.removed.clone();
                let mut j = inst.json.clone();
                for c in j["constraints"].as_array_mut().unwrap() {
                    if r.chance(2, 3) { c["eq"] = json!("le"); }
                }
                let aim = |r: &mut Rng, pref: &Vec<u64>, other: &Vec<u64>| -> u64 {
                    if !pref.is_empty() && r.chance(3, 4) { *r.pick(pref) } else if !other.is_empty() && r.chance(2, 3) { *r.pick(other) } else { 99 }
                };
                let all_ids: Vec<u64> = inst.vars.iter().map(|v| v.id).collect();
                let mut ops = vec![];
                let len = 2 + r.below(6);
                let val = |r: &mut Rng, id: u64| inst.vars.iter().find(|v| v.id == id).unwrap().value(r);
                for _ in 0..len {
                    match r.below(12) {
                        0 | 1 => {
                            let st: Vec<(u64, Value)> = free.iter().map(|id| (*id, val(r, *id))).collect();
                            ops.push(json!({"op":"evaluate","st":st_json(&st),"fill":r.below(1 << 20)}));
                        }
                        2 if free.len() >= 2 => {
                            // fix one or two free variables
                            r.shuffle(&mut free);
                            let m = 1 + r.below(2) as usize;
                            let fixed: Vec<u64> = free.drain(..m.min(free.len() - 1)).collect();
                            let st: Vec<(u64, Value)> = fixed.iter().map(|id| (*id, val(r, *id))).collect();
                            ops.push(json!({"op":"inst_partial","st":st_json(&st)}));
                        }
                        3 if free.len() >= 2 => {
                            // replace one free variable by a linear function of the other free ones
                            r.shuffle(&mut free);
                            let x = free.remove(0);
                            let gr = FnGen { ids: free.clone(), coef_den: 1, coef_max: 2, max_terms: 2, max_deg: 1 };
                            ops.push(json!({"op":"inst_subst","repl":[[x, gr.linear(r)]]}));
                        }
                        4 => {
                            let c = aim(r, &act, &rem);
                            if let Some(i) = act.iter().position(|x| *x == c) { act.remove(i); rem.push(c); }
                            ops.push(json!({"op":"relax","cid":c,"reason":format!("why{}", r.below(2)),"rparams":[]}));
                        }
                        5 => {
                            let c = aim(r, &rem, &act);
                            if let Some(i) = rem.iter().position(|x| *x == c) { rem.remove(i); act.push(c); }
                            ops.push(json!({"op":"restore","cid":c}));
                        }
                        6 => ops.push(json!({"op":"as_min"})),
                        7 => ops.push(json!({"op":"log_encode","vid":*r.pick(&all_ids)})),
                        8 => ops.push(json!({"op":"slack_convert","cid":aim(r, &act, &rem),"max":*r.pick(&[2u64, 10, 1000]),"points":"auto"})),
                        9 => ops.push(json!({"op":"slack_add","cid":aim(r, &act, &rem),"ub":1 + r.below(4),"points":"auto"})),
                        10 if r.chance(1, 2) => {
                            // the rest of the to-QUBO pipeline: penalise, instantiate the weights, continue unconstrained
                            let ws: Vec<Value> = (0..3).map(|_| q(r.range(0, 6), 2)).collect();
                            ops.push(json!({"op":"penalty_chain","uniform":r.chance(1, 2),"weights":ws}));
                            act.clear();
                        }
                        10 => ops.push(json!({"op":*r.pick(&["penalty", "uniform_penalty", "used_ids", "validate"])})),
                        _ => ops.push(json!({"op":*r.pick(&["pubo", "qubo", "typed"])})),
                    }
                }
                let st: Vec<(u64, Value)> = free.iter().map(|id| (*id, val(r, *id))).collect();
                ops.push(json!({"op":"evaluate","st":st_json(&st),"fill":r.below(1 << 20)}));
                out.push(json!({"ev":"seq","case":format!("d-mixed-seq-{k}"),"src":"drive","in":{"inst":j,"ops":ops}}));
            }
        }
        "pipeline" => {
            // the to-QUBO pipeline on small integer programs: minimise, log-encode every integer variable, turn every
            // inequality into an equality with an integer slack, encode the slacks, penalise, instantiate the weights,
            // export PUBO/QUBO; evaluations in between
            for k in 0..n {
                let with_removed = r.chance(1, 3);
                let inst = rand_instance(r, &InstOpts { max_deg: 1, int_only: true, boxed: true, with_deps: false, with_removed, max_cons: 2, coef_den: 1 });
                let mut j = inst.json.clone();
                for c in j["constraints"].as_array_mut().unwrap() {
                    if r.chance(2, 3) { c["eq"] = json!("le"); }
                }
                let cids: Vec<u64> = inst.active.clone();
                let st: Vec<(u64, Value)> = inst.vars.iter().map(|v| (v.id, v.value(r))).collect();
                let mut ops = vec![json!({"op":"evaluate","st":st_json(&st)}), json!({"op":"as_min"})];
                if r.chance(1, 2) { ops.push(json!({"op":"encode_all_integers"})); }
                for c in &cids {
                    ops.push(json!({"op":"slack_convert","cid":c,"max":1000,"points":"auto"}));
                }
                ops.push(json!({"op":"encode_all_integers"}));
                ops.push(json!({"op":"evaluate","st":[],"fill":r.below(1 << 20),"fill_all":true}));
                let ws: Vec<Value> = (0..3).map(|_| q(r.range(0, 6), 2)).collect();
                ops.push(json!({"op":"penalty_chain","uniform":r.chance(1, 2),"weights":ws}));
                ops.push(json!({"op":"pubo"}));
                ops.push(json!({"op":"qubo"}));
                ops.push(json!({"op":"evaluate","st":[],"fill":r.below(1 << 20),"fill_all":true}));
                out.push(json!({"ev":"seq","case":format!("d-pipeline-seq-{k}"),"src":"drive","in":{"inst":j,"ops":ops}}));
            }
        }
        "penalty" => {
            for k in 0..n {
                let inst = rand_instance(r, &DEFAULT);
                let name = if r.chance(1, 2) { "penalty" } else { "uniform_penalty" };
                out.push(ev(name, format!("d-{name}-{k}"), json!({"inst": inst.json})));
            }
        }
        "as_min" => {
            for k in 0..n {
                let inst = rand_instance(r, &DEFAULT);
                let st = inst.state(r, false);
                // every third conversion runs on the objective scaled down by 2^60 (see exec_inst: "downscale")
                let first = if k % 3 == 2 { json!({"op":"as_min","downscale":60}) } else { json!({"op":"as_min"}) };
                let ops = vec![json!({"op":"evaluate","st":st_json(&st)}), first, json!({"op":"evaluate","st":st_json(&st)}), json!({"op":"as_min"})];
                out.push(json!({"ev":"seq","case":format!("d-asmin-seq-{k}"),"src":"drive","in":{"inst":inst.json,"ops":ops}}));
            }
        }
        "with_parameters" => {
            for k in 0..n {
                // an instance over variables and parameters: ids 1..4 decision variables, 50.. parameters
                let mut inst = rand_instance(r, &InstOpts { max_deg: 3, with_deps: false, ..DEFAULT });
                let np = r.below(3) as usize;
                let pids: Vec<u64> = (0..np).map(|i| 50 + 3 * i as u64).collect();
                let mut ids = inst.used.clone();
                ids.extend(pids.iter().cloned());
                let g = FnGen { ids, coef_den: 2, coef_max: 4, max_terms: 4, max_deg: 3 };
                inst.json["objective"] = json!([g.function(r, false)]);
                for c in inst.json["constraints"].as_array_mut().unwrap() {
                    c["f"] = json!([g.function(r, false)]);
                }
                let params: Vec<Value> = pids.iter().map(|p| { let (name, subs, pr, desc) = meta(r, "p"); json!({"id": p, "name": name, "subs": subs, "params": pr, "desc": desc}) }).collect();
                inst.json["parameters"] = json!(params);
                let mut pv: Vec<(u64, Value)> = pids.iter().map(|p| (*p, q(r.range(-4, 4), 2))).collect();
                match r.below(4) {
                    0 if !pv.is_empty() => { let i = r.below(pv.len() as u64) as usize; pv.remove(i); }
                    1 => pv.push((90, q(3, 1))), // an extra id unrelated to anything
                    _ => {}
                }
                out.push(ev("with_parameters", format!("d-withparams-{k}"), json!({"pinst": inst.json, "pv": st_json(&pv)})));
            }
            for k in 0..n / 4 {
                let mut inst = rand_instance(r, &DEFAULT);
                match r.below(3) {
                    0 => inst.json["params"] = json!([[]]),
                    1 => inst.json["params"] = json!([[[40, [1, 2]], [41, [3, 1]]]]),
                    _ => {}
                }
                out.push(ev("to_parametric", format!("d-toparam-{k}"), json!({"inst": inst.json})));
            }
        }
        "log_encode" => {
            for k in 0..n {
                let mut inst = rand_instance(r, &InstOpts { with_deps: false, ..DEFAULT });
                let vid = inst.used[0];
                let vars = inst.json["vars"].as_array_mut().unwrap();
                let v = vars.iter_mut().find(|v| v["id"] == vid).unwrap();
                let big = r.chance(1, 4);
                let (l2, w) = if big { (r.range(-(1 << 21), 1 << 21), r.range(0, 1 << 20)) } else { (r.range(-40, 40), r.range(0, 600)) };
                // fractional bounds: lower = l2/2 + a fraction, upper = lower + w + another fraction (the two fractional
                // parts vary independently; denominators 2, 4, 8 and 10)
                let den = if big { 2 } else { *r.pick(&[2i64, 4, 8, 10]) };
                let fr = |r: &mut Rng, p: i64, d: i64| -> Value {
                    fn g(a: i64, b: i64) -> i64 { if b == 0 { a.abs() } else { g(b, a % b) } }
                    let k = g(p, d).max(1);
                    let _ = r;
                    json!([p / k, d / k])
                };
                let lo_p = l2 * (den / 2) + r.range(0, den - 1);
                let hi_p = (l2 + 2 * w) * (den / 2) + r.range(0, den - 1);
                let lo = fr(r, lo_p, den);
                let hi = fr(r, hi_p.max(lo_p), den);
                match r.below(12) {
                    0 => { v["kind"] = json!("continuous"); v["bound"] = json!([{"lo": lo, "hi": hi}]); }
                    1 => { v["kind"] = json!("integer"); v["bound"] = json!([]); }
                    2 => { v["kind"] = json!("binary"); v["bound"] = json!([{"lo": [0,1], "hi": [1,1]}]); }
                    3 => { v["kind"] = json!("integer"); v["bound"] = json!([{"lo": [1,2], "hi": [3,4]}]); } // no integer inside
                    4 if !big => {
                        // ends a grid step (2^-26) off an integer, either side
                        const U: i64 = 1 << 26;
                        let a = r.range(-6, 6);
                        let b = a + r.range(0, 9);
                        let (dl, dh) = (*r.pick(&[-1i64, 1]), *r.pick(&[-1i64, 1]));
                        if a * U + dl <= b * U + dh {
                            v["kind"] = json!("integer");
                            v["bound"] = json!([{"lo": [a * U + dl, U], "hi": [b * U + dh, U]}]);
                        }
                    }
                    _ => { v["kind"] = json!("integer"); v["bound"] = json!([{"lo": lo, "hi": hi}]); }
                }
                let target = if r.chance(1, 12) { 77 } else { vid };
                out.push(ev("log_encode", format!("d-logenc-{k}"), json!({"inst": inst.json, "vid": target})));
            }
        }
        "slack" => {
            for k in 0..n {
                // integer/binary variables with small boxes; rational coefficients with denominators <= 12
                let den = *r.pick(&[1i64, 1, 1, 2, 3, 4, 6, 12]);
                let int_only = r.chance(9, 10);
                let inst = rand_instance(r, &InstOpts { max_deg: 2, int_only, boxed: true, with_deps: false, with_removed: true, max_cons: 3, coef_den: 1 });
                let mut j = inst.json.clone();
                let ids: Vec<u64> = inst.used.iter().take(3).cloned().collect();
                // rewrite constraint functions with the chosen denominator over <= 3 variables
                fn gcd(a: i64, b: i64) -> i64 { if b == 0 { a.abs() } else { gcd(b, a % b) } }
                let rc = |r: &mut Rng| -> Value { let p = r.range(-2 * den, 2 * den); let g = gcd(p, den).max(1); json!([p / g, den / g]) };
                let red = |p: i64| -> Value { let g = gcd(p, den).max(1); json!([p / g, den / g]) };
                for c in j["constraints"].as_array_mut().unwrap() {
                    let mut terms = vec![];
                    let mut raw: Vec<(u64, i64)> = vec![];
                    for id in &ids { if r.chance(2, 3) { let p = r.range(-2 * den, 2 * den); raw.push((*id, p)); terms.push(json!({"id": id, "c": red(p)})); } }
                    // un-normalised message: the same variable listed twice (the function is the sum of its listed terms)
                    // (only with binary-fraction coefficients: merging 5/6 and -11/6 in floating point gives -0.9999999999999999,
                    //  one ulp off the exact -1, which the trace's number domain deliberately does not identify with -1)
                    if !raw.is_empty() && [1, 2, 4].contains(&den) && r.chance(1, 3) {
                        let id = raw[r.below(raw.len() as u64) as usize].0;
                        let p = r.range(-2 * den, 2 * den);
                        raw.push((id, p));
                        terms.push(json!({"id": id, "c": red(p)}));
                        if r.chance(1, 2) { terms.rotate_left(1); }
                    }
                    let f = if r.chance(1, 3) && ids.len() >= 2 {
                        json!({"kind":"quadratic","rows":[ids[0]],"columns":[ids[1]],"values":[rc(r)],"linear":[{"kind":"linear","terms":terms,"constant":rc(r)}]})
                    } else if r.chance(1, 4) {
                        // boundary: the constant makes the exact minimum (or maximum) of f over the box equal to 0, so the
                        // "never holds" / "always holds" decisions sit exactly on their thresholds
                        let at_min = r.chance(2, 3);
                        let mut ext = 0i64;
                        for (id, p) in &raw {
                            let v = inst.vars.iter().find(|v| v.id == *id).unwrap();
                            let (lo, hi) = v.eff();
                            let (lo, hi) = (lo.unwrap_or(0), hi.unwrap_or(0));
                            ext += p * if (*p > 0) == at_min { lo } else { hi };
                        }
                        json!({"kind":"linear","terms":terms,"constant":red(-ext)})
                    } else {
                        json!({"kind":"linear","terms":terms,"constant":rc(r)})
                    };
                    c["f"] = json!([f]);
                    if r.chance(4, 5) { c["eq"] = json!("le"); }
                }
                // lattice points of the box of the used variables (all variables get a value)
                let mut points: Vec<Vec<(u64, i64)>> = vec![vec![]];
                let mut too_big = false;
                for v in &inst.vars {
                    let (lo, hi) = v.eff();
                    let (lo, hi) = (lo.unwrap_or(0), hi.unwrap_or(0));
                    if v.kind == "continuous" { points = points.into_iter().map(|mut p| { p.push((v.id, lo)); p }).collect(); continue; }
                    let mut next = vec![];
                    for p in &points { for x in lo..=hi { let mut p2 = p.clone(); p2.push((v.id, x)); next.push(p2); } }
                    points = next;
                    if points.len() > 400 { too_big = true; break; }
                }
                if too_big { continue; }
                let pts: Vec<Value> = points.iter().map(|p| Value::Array(p.iter().map(|(i, x)| json!([i, [x, 1]])).collect())).collect();
                let mut cids: Vec<u64> = inst.active.clone();
                if r.chance(1, 6) || cids.is_empty() { cids.push(99); }
                if r.chance(1, 8) { cids.extend(inst.removed.iter().cloned()); }
                let cid = *r.pick(&cids);
                if r.chance(1, 2) {
                    let max = *r.pick(&[0u64, 2, 10, 1000, 1000000]);
                    out.push(ev("slack_convert", format!("d-slackconv-{k}"), json!({"inst": j, "cid": cid, "max": max, "points": pts})));
                } else {
                    out.push(ev("slack_add", format!("d-slackadd-{k}"), json!({"inst": j, "cid": cid, "ub": 1 + r.below(4), "points": pts})));
                }
            }
        }
        "samples" => {
            for k in 0..n {
                let inst = rand_instance(r, &DEFAULT);
                let nstates = 1 + r.below(3) as usize;
                let omit = r.chance(1, 3);
                let states: Vec<Vec<(u64, Value)>> = (0..nstates).map(|_| inst.state(r, omit)).collect();
                let nids = 1 + r.below(8) as usize;
                let mut sids: Vec<u64> = [0u64, 1, 2, 5, 8, 13, 21, 100, 7, 3].to_vec();
                r.shuffle(&mut sids);
                let mut entries: Vec<(usize, Vec<u64>)> = vec![];
                for sid in &sids[..nids] {
                    let s = r.below(nstates as u64) as usize;
                    // same state in one entry, or in a separate entry
                    if r.chance(1, 2) {
                        if let Some(e) = entries.iter_mut().find(|e| e.0 == s) { e.1.push(*sid); continue; }
                    }
                    entries.push((s, vec![*sid]));
                }
                let samples: Vec<Value> = entries.iter().map(|(s, ids)| json!({"state": [st_json(&states[*s])], "ids": ids})).collect();
                out.push(ev("evaluate_samples", format!("d-samples-{k}"), json!({"inst": inst.json, "samples": samples})));
                // the same samples registered one by one through Samples::add_sample; and a state that omits the variables
                // the problem does not use, registered AFTER a state that mentions them and agrees everywhere else
                if r.chance(1, 2) {
                    out.push(ev("evaluate_samples", format!("d-samples-add-{k}"), json!({"inst": inst.json, "samples": samples, "build": "add_sample"})));
                }
                let full = inst.state(r, false);
                let part: Vec<(u64, Value)> = full.iter().filter(|(id, _)| inst.used.contains(id)).cloned().collect();
                if part.len() < full.len() {
                    let (a, b) = if r.chance(3, 4) { (&full, &part) } else { (&part, &full) };
                    let two = json!([{"state": [st_json(a)], "ids": [4, 1]}, {"state": [st_json(b)], "ids": [9]}]);
                    out.push(ev("evaluate_samples", format!("d-samples-sub-{k}"), json!({"inst": inst.json, "samples": two, "build": "add_sample"})));
                }
            }
        }
        "best" => {
            for k in 0..n {
                let ns = 1 + r.below(8) as usize;
                let mut sids: Vec<u64> = [0u64, 1, 2, 5, 8, 13, 21, 100].to_vec();
                r.shuffle(&mut sids);
                let sids = &sids[..ns];
                let objs: Vec<i64> = sids.iter().map(|_| r.range(-2, 2)).collect();
                let mut groups: std::collections::BTreeMap<i64, Vec<u64>> = Default::default();
                for (s, o) in sids.iter().zip(&objs) { groups.entry(*o).or_default().push(*s); }
                let sv: Vec<Value> = groups.iter().map(|(o, ids)| json!({"value": [o, 1], "ids": ids})).collect();
                let relaxed: Vec<(u64, bool)> = sids.iter().map(|s| (*s, r.chance(1, 2))).collect();
                let all: Vec<(u64, bool)> = relaxed.iter().map(|(s, b)| (*s, *b && r.chance(2, 3))).collect();
                let bm = |m: &Vec<(u64, bool)>| { let mut m = m.clone(); m.sort(); Value::Array(m.iter().map(|(s, b)| json!([s, b])).collect()) };
                let legacy = r.chance(1, 3);
                let ss = if legacy {
                    json!({"objectives":[sv],"vars":[],"constraints":[],"feasible":bm(&relaxed),"feasible_relaxed":[],"feasible_unrelaxed":bm(&all),"sense": if r.chance(1,2) {"min"} else {"max"}})
                } else {
                    json!({"objectives":[sv],"vars":[],"constraints":[],"feasible":bm(&all),"feasible_relaxed":bm(&relaxed),"feasible_unrelaxed":[],"sense": if r.chance(1,2) {"min"} else {"max"}})
                };
                out.push(ev("best", format!("d-best-{k}"), json!({"ss": ss, "via_bytes": r.chance(1, 2)})));
            }
        }
        "pubo" => {
            for k in 0..n {
                let nb = if r.chance(1, 40) { 12 } else { 1 + r.below(6) as usize };
                let ids: Vec<u64> = (0..nb as u64).map(|i| 1 + 2 * i).collect();
                let g = FnGen { ids: ids.clone(), coef_den: 2, coef_max: 6, max_terms: 8, max_deg: 4 };
                let mut vars: Vec<Value> = ids.iter().map(|i| json!({"id": i, "kind": "binary", "bound": if r.chance(1,2) { json!([{"lo":[0,1],"hi":[1,1]}]) } else { json!([]) }, "fixed": [], "name": [], "subs": [], "params": [], "desc": []})).collect();
                let mut sense = "min";
                let mut cons = json!([]);
                match r.below(12) {
                    0 => sense = "max",
                    1 => cons = json!([{"id": 1, "eq": "eq", "f": [{"kind":"constant","c":[0,1]}], "name": [], "subs": [], "params": [], "desc": []}]),
                    2 => { vars[0]["kind"] = json!("integer"); }
                    _ => {}
                }
                let deg2 = r.chance(1, 2);
                let g2 = FnGen { max_deg: 2, ..FnGen { ids: ids.clone(), coef_den: 2, coef_max: 6, max_terms: 8, max_deg: 2 } };
                let f = if deg2 { g2.function(r, true) } else { g.function(r, true) };
                let objective = if f["kind"] == "none" && r.chance(1, 2) { json!([]) } else { json!([f]) };
                let inst = json!({"sense": sense, "vars": vars, "objective": objective, "constraints": cons, "removed": [], "deps": [], "params": [], "hints": [], "description": [], "parameters": []});
                out.push(ev("pubo", format!("d-pubo-{k}"), json!({"inst": inst})));
                out.push(ev("qubo", format!("d-qubo-{k}"), json!({"inst": inst})));
            }
        }
        "wire" => {
            for k in 0..n {
                let inst = rand_instance(r, &InstOpts { max_deg: 3, ..DEFAULT });
                let st = inst.state(r, false);
                match r.below(6) {
                    0 => out.push(ev("wire_encode", format!("d-wire-{k}"), json!({"type":"Instance","wtype":"instance","msg":inst.json}))),
                    1 => {
                        let mut p = inst.json.clone();
                        p["parameters"] = json!([{"id": 70, "name": ["w"], "subs": [3, -1], "params": [["a","b"]], "desc": ["d"]}]);
                        out.push(ev("wire_encode", format!("d-wire-{k}"), json!({"type":"ParametricInstance","wtype":"parametricinstance","msg":p})));
                    }
                    2 => out.push(ev("wire_encode", format!("d-wire-{k}"), json!({"type":"State","wtype":"state","msg":st_json(&st)}))),
                    3 => out.push(ev("wire_encode", format!("d-wire-{k}"), json!({"type":"Solution","wtype":"solution","msg":{"inst":inst.json,"st":st_json(&st)}}))),
                    4 => {
                        let samples = json!([{"state":[st_json(&st)],"ids":[0, 3]}, {"state":[st_json(&inst.state(r, false))],"ids":[7]}]);
                        out.push(ev("wire_encode", format!("d-wire-{k}"), json!({"type":"Samples","wtype":"samples","msg":samples})));
                    }
                    _ => {
                        let g = FnGen { ids: vec![1, 2, 3, 5], coef_den: 4, coef_max: 8, max_terms: 6, max_deg: 4 };
                        out.push(ev("wire_encode", format!("d-wire-{k}"), json!({"type":"Function","wtype":"function","msg":g.function(r, true)})));
                    }
                }
            }
        }
        "validate" => {
            for k in 0..n {
                let mut inst = rand_instance(r, &InstOpts { max_deg: 3, ..DEFAULT });
                // occasionally fix a variable or attach a hint (well-formed)
                if r.chance(1, 3) && inst.active.len() >= 1 && inst.used.len() >= 2 {
                    inst.json["hints"] = json!([{"onehot": [{"cid": inst.active[0], "vars": [inst.used[0], inst.used[1]]}], "sos1": []}]);
                }
                if r.chance(1, 4) {
                    inst.json["params"] = json!([[[5, [1, 2]], [8, [-1, 1]]]]);
                }
                out.push(ev("validate", format!("d-validate-{k}"), json!({"inst": inst.json})));
                out.push(ev("typed", format!("d-typed-{k}"), json!({"inst": inst.json})));
                out.push(ev("used_ids", format!("d-usedids-{k}"), json!({"inst": inst.json})));
                let mut p = inst.json.clone();
                p["parameters"] = json!([{"id": 70, "name": [], "subs": [], "params": [], "desc": []}]);
                out.push(ev("pvalidate", format!("d-pvalidate-{k}"), json!({"pinst": p})));
            }
        }
        other => match crate::gen_text::generate(other, r, n) {
            Some(v) => out.extend(v),
            None => panic!("unknown generator group {other}"),
        },
    }
    out
}
