//! Seeded random generators for instance-level events.
use crate::num::Rng;
use serde_json::Value;
pub fn generate(_group: &str, _r: &mut Rng, _n: usize) -> Vec<Value> {
    Vec::new()
}
