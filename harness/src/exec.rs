//! Execute one trace event against the real ommx API and record the raw result.
//! No oracle logic lives here: inputs are turned into SDK values, the SDK is called, outputs are logged.
use crate::num::{approx_rational, from_f64, to_f64};
use crate::shape::*;
use ommx::v1::{self, Function, Linear, Polynomial, Quadratic};
use ommx::{Bound, Evaluate};
use serde_json::{json, Value};
use std::collections::HashMap;
use std::panic::{catch_unwind, AssertUnwindSafe};

pub enum Opnd {
    Num(f64),
    Dv(v1::DecisionVariable),
    Param(v1::Parameter),
    Lin(Linear),
    Quad(Quadratic),
    Poly(Polynomial),
    Func(Function),
}
pub fn conv<T: Into<Function>>(x: T) -> Function {
    x.into()
}
fn opnd_from(v: &Value) -> Opnd {
    match v["k"].as_str().unwrap() {
        "num" => Opnd::Num(to_f64(&v["c"])),
        "dv" => {
            let mut d = v1::DecisionVariable::default();
            d.id = vid(&v["id"]);
            // the algebra must not depend on anything but the id; operands carry a kind and a bound to show that
            if let Some(k) = v.get("vk").and_then(|k| k.as_str()) {
                d.kind = kind_from(k);
                if k == "binary" {
                    let mut b = v1::Bound::default();
                    b.lower = 0.0;
                    b.upper = 1.0;
                    d.bound = Some(b);
                }
            }
            Opnd::Dv(d)
        }
        "param" => {
            let mut d = v1::Parameter::default();
            d.id = vid(&v["id"]);
            Opnd::Param(d)
        }
        "lin" => Opnd::Lin(linear_from(&v["f"])),
        "quad" => Opnd::Quad(quadratic_from(&v["f"])),
        "poly" => Opnd::Poly(polynomial_from(&v["f"])),
        "func" => Opnd::Func(function_from(&v["f"])),
        k => panic!("operand kind {k}"),
    }
}

fn scale_lin(l: &mut Linear, s: f64) {
    for t in l.terms.iter_mut() {
        t.coefficient *= s;
    }
    l.constant *= s;
}
fn scale_quad(q: &mut Quadratic, s: f64) {
    for v in q.values.iter_mut() {
        *v *= s;
    }
    if let Some(l) = q.linear.as_mut() {
        scale_lin(l, s);
    }
}
fn scale_poly(p: &mut Polynomial, s: f64) {
    for t in p.terms.iter_mut() {
        t.coefficient *= s;
    }
}
/// multiply every coefficient the message lists by `s` (a power of two: exact)
pub fn scale_function(f: &mut Function, s: f64) {
    match f.function.as_mut() {
        Some(v1::function::Function::Constant(c)) => *c *= s,
        Some(v1::function::Function::Linear(l)) => scale_lin(l, s),
        Some(v1::function::Function::Quadratic(q)) => scale_quad(q, s),
        Some(v1::function::Function::Polynomial(p)) => scale_poly(p, s),
        _ => {}
    }
}
/// multiply every coefficient the operand's message lists by `s` (operands without listed coefficients are left alone)
fn scale_opnd(o: &mut Opnd, s: f64) {
    match o {
        Opnd::Lin(l) => scale_lin(l, s),
        Opnd::Quad(q) => scale_quad(q, s),
        Opnd::Poly(p) => scale_poly(p, s),
        Opnd::Func(f) => scale_function(f, s),
        _ => {}
    }
}

/// SortedIds is not re-exported by name; build it through the public From<Vec<u64>> of the iterator item type
fn ommx_sorted(ids: Vec<u64>) -> <<&'static Polynomial as IntoIterator>::Item as First>::T {
    ids.into()
}
pub trait First {
    type T;
}
impl<A, B> First for (A, B) {
    type T = A;
}
fn err(e: impl std::fmt::Display) -> Value {
    json!({"tag":"err","msg": format!("{e:#}")})
}
fn iter_terms(f: &Function) -> Value {
    Value::Array(
        f.into_iter()
            .map(|(ids, c)| json!({"ids": vids_to(ids.iter()), "c": from_f64(c)}))
            .collect(),
    )
}
fn ids_to<'a>(it: impl IntoIterator<Item = &'a u64>) -> Value {
    Value::Array(it.into_iter().map(|x| json!(down(*x))).collect())
}
fn bound_v(b: &Bound) -> Value {
    json!({"lo": from_f64(b.lower()), "hi": from_f64(b.upper())})
}
fn bound_in(v: &Value) -> Result<Bound, ommx::BoundError> {
    Bound::new(to_f64(&v["lo"]), to_f64(&v["hi"]))
}

/// Run `f`, converting a panic of the code under test into data.
pub fn guarded(f: impl FnOnce() -> Value) -> Value {
    match catch_unwind(AssertUnwindSafe(f)) {
        Ok(v) => v,
        Err(p) => {
            let msg = p
                .downcast_ref::<String>()
                .cloned()
                .or_else(|| p.downcast_ref::<&str>().map(|s| s.to_string()))
                .unwrap_or_else(|| "panic".into());
            json!({"tag":"panic","msg":msg})
        }
    }
}

/// Apply one input event; returns the list of output events (composite inputs are flattened).
pub fn apply(ev: &Value) -> Vec<Value> {
    let name = ev["ev"].as_str().expect("ev");
    let inp = &ev["in"];
    // relabelled replay of a function-level event (see shape::up): the logged event keeps the small ids
    // ("evaluate", "commute", "evaluate_samples": the instance-level actions whose every variable id -- declarations, functions, dependency keys, hints,
    //  state, and on the way back solution state, reported variables, used ids -- goes through the same relabelling)
    const LIFTABLE: [&str; 11] = ["eval_fn", "partial_fn", "subst_fn", "arith", "fn_info", "ctor", "eval_bound", "content_factor", "evaluate",
                                  "commute", "evaluate_samples"];
    set_lift(if LIFTABLE.contains(&name) { inp.get("lift").and_then(|m| m.as_str()) } else { None });
    if LIFTABLE.contains(&name) && inp.get("lift").and_then(|m| m.as_str()) == Some("E") {
        set_lift_top(max_var_id(inp));
    }
    // signed-zero replay: -0.0 IS the number 0, so the judged event (which shows 0) must get the same verdict when every
    // zero of the vector is handed to the SDK as -0.0 (a zero interval [-0,-0], a coefficient -0, a state value -0)
    const NEGZEROABLE: [&str; 5] = ["bound_op", "eval_bound", "eval_fn", "arith", "partial_fn"];
    crate::num::set_negzero(NEGZEROABLE.contains(&name) && inp.get("negzero").and_then(|b| b.as_bool()) == Some(true));
    let mk = |out: Value| -> Value {
        let mut e = ev.clone();
        e["out"] = out;
        e
    };
    match name {
        // ------------------------------------------------------------ function level
        "eval_fn" => {
            let st = state_from(&inp["st"]);
            let out = guarded(|| {
                let r = match inp["via"].as_str().unwrap_or("function") {
                    "typed" => match inp["f"]["kind"].as_str().unwrap() {
                        "linear" => linear_from(&inp["f"]).evaluate(&st),
                        "quadratic" => quadratic_from(&inp["f"]).evaluate(&st),
                        "polynomial" => polynomial_from(&inp["f"]).evaluate(&st),
                        _ => function_from(&inp["f"]).evaluate(&st),
                    },
                    _ => function_from(&inp["f"]).evaluate(&st),
                };
                match r {
                    Ok((v, ids)) => json!({"tag":"ok","value":from_f64(v),"ids":ids_to(&ids)}),
                    Err(e) => err(e),
                }
            });
            vec![mk(out)]
        }
        "partial_fn" => {
            let st = state_from(&inp["st"]);
            let out = guarded(|| {
                let (r, f) = match inp["via"].as_str().unwrap_or("function") {
                    "typed" => match inp["f"]["kind"].as_str().unwrap() {
                        "linear" => {
                            let mut x = linear_from(&inp["f"]);
                            (x.partial_evaluate(&st), linear_to(&x))
                        }
                        "quadratic" => {
                            let mut x = quadratic_from(&inp["f"]);
                            (x.partial_evaluate(&st), quadratic_to(&x))
                        }
                        "polynomial" => {
                            let mut x = polynomial_from(&inp["f"]);
                            (x.partial_evaluate(&st), polynomial_to(&x))
                        }
                        _ => {
                            let mut x = function_from(&inp["f"]);
                            (x.partial_evaluate(&st), function_to(&x))
                        }
                    },
                    _ => {
                        let mut x = function_from(&inp["f"]);
                        (x.partial_evaluate(&st), function_to(&x))
                    }
                };
                match r {
                    Ok(ids) => json!({"tag":"ok","f":f,"ids":ids_to(&ids)}),
                    Err(e) => err(e),
                }
            });
            vec![mk(out)]
        }
        "subst_fn" => {
            let out = guarded(|| {
                let f = function_from(&inp["f"]);
                let repl: HashMap<u64, Function> = deps_from(&inp["repl"]);
                match f.substitute(&repl) {
                    Ok(g) => json!({"tag":"ok","f":function_to(&g),"iter":iter_terms(&g)}),
                    Err(e) => err(e),
                }
            });
            vec![mk(out)]
        }
        "arith" => {
            let out = guarded(|| {
                let mut a = opnd_from(&inp["a"]);
                let op = inp["op"].as_str().unwrap();
                let r = if op == "neg" {
                    crate::arith_table::unary_neg(&a)
                } else {
                    let mut b = opnd_from(&inp["b"]);
                    // rescaled replay of a product with a number: the number is divided by 2^k and every coefficient of
                    // the other operand multiplied by 2^k.  Scaling by a power of two is exact in binary floating point,
                    // so the product is bit for bit the one of the logged operands; the judge sees the logged operands.
                    if let (Some(k), "mul") = (inp.get("rescale").and_then(|k| k.as_i64()), op) {
                        let s = 2f64.powi(k as i32);
                        match (&mut a, &mut b) {
                            (Opnd::Num(x), o) if !matches!(o, Opnd::Num(_)) => {
                                *x /= s;
                                scale_opnd(o, s)
                            }
                            (o, Opnd::Num(x)) => {
                                *x /= s;
                                scale_opnd(o, s)
                            }
                            _ => {}
                        }
                    }
                    crate::arith_table::binary(op, &a, &b)
                };
                match r {
                    Some(f) => json!({"tag":"ok","f":function_to(&f),"iter":iter_terms(&f),
                                      "degree": f.degree()}),
                    None => json!({"tag":"undefined"}),
                }
            });
            vec![mk(out)]
        }
        "fn_info" => {
            // degree / as_linear / as_constant / used ids / get_constant / iterator (growth beyond the listed properties)
            let out = guarded(|| {
                let f = function_from(&inp["f"]);
                json!({"tag":"ok","degree": f.degree(), "used": ids_to(&f.used_decision_variable_ids()),
                    "as_linear": optv(&f.clone().as_linear(), linear_to),
                    "as_constant": optv(&f.clone().as_constant(), |c| from_f64(*c)),
                    "constant": from_f64(f.get_constant()),
                    "iter": iter_terms(&f)})
            });
            vec![mk(out)]
        }
        "fmt" => {
            // Display of the typed message / the Function wrapper
            let out = guarded(|| {
                let f = function_from(&inp["f"]);
                let s = match (&f.function, inp["via"].as_str().unwrap_or("function")) {
                    (Some(ommx::v1::function::Function::Linear(l)), "typed") => l.to_string(),
                    (Some(ommx::v1::function::Function::Quadratic(q)), "typed") => q.to_string(),
                    (Some(ommx::v1::function::Function::Polynomial(p)), "typed") => p.to_string(),
                    _ => f.to_string(),
                };
                json!({"tag":"ok","s":s})
            });
            vec![mk(out)]
        }
        "ctor" => {
            let out = guarded(|| match inp["kind"].as_str().unwrap() {
                "linear_new" => {
                    let terms: Vec<(u64, f64)> = inp["terms"].as_array().unwrap().iter().map(|t| (vid(&t[0]), to_f64(&t[1]))).collect();
                    let l = Linear::new(terms.into_iter(), to_f64(&inp["constant"]));
                    json!({"tag":"ok","f":linear_to(&l)})
                }
                "quadratic_from_iter" => {
                    let q: Quadratic = inp["entries"].as_array().unwrap().iter()
                        .map(|t| ((vid(&t[0]), vid(&t[1])), to_f64(&t[2]))).collect();
                    json!({"tag":"ok","f":quadratic_to(&q)})
                }
                _ => {
                    let p: Polynomial = inp["terms"].as_array().unwrap().iter()
                        .map(|t| (ommx_sorted(t[0].as_array().unwrap().iter().map(vid).collect()), to_f64(&t[1]))).collect();
                    json!({"tag":"ok","f":polynomial_to(&p)})
                }
            });
            vec![mk(out)]
        }
        // ------------------------------------------------------------ intervals
        "bound_op" => {
            let out = guarded(|| {
                let op = inp["op"].as_str().unwrap();
                if op == "new" {
                    return match bound_in(&inp["a"]) {
                        Ok(b) => json!({"tag":"ok","b":bound_v(&b)}),
                        Err(e) => err(e),
                    };
                }
                let a = match bound_in(&inp["a"]) {
                    Ok(a) => a,
                    Err(e) => return json!({"tag":"bad_input","msg":e.to_string()}),
                };
                match op {
                    "add" | "mul" | "intersection" => {
                        let b = match bound_in(&inp["b"]) {
                            Ok(b) => b,
                            Err(e) => return json!({"tag":"bad_input","msg":e.to_string()}),
                        };
                        match op {
                            "add" => json!({"tag":"ok","b":bound_v(&(a + b))}),
                            "mul" => json!({"tag":"ok","b":bound_v(&(a * b))}),
                            _ => match a.intersection(&b) {
                                Some(c) => json!({"tag":"ok","b":bound_v(&c)}),
                                None => json!({"tag":"empty"}),
                            },
                        }
                    }
                    "pow" => json!({"tag":"ok","b":bound_v(&a.pow(inp["n"].as_u64().unwrap() as u8))}),
                    "scale" => {
                        // rescaled replay (see arith): the factor divided by 2^k, the interval's finite ends multiplied by 2^k
                        let (mut a, mut k) = (a, to_f64(&inp["k"]));
                        if let Some(r) = inp.get("rescale").and_then(|r| r.as_i64()) {
                            let s = 2f64.powi(r as i32);
                            k /= s;
                            a = match Bound::new(a.lower() * s, a.upper() * s) {
                                Ok(b) => b,
                                Err(e) => return json!({"tag":"bad_input","msg":e.to_string()}),
                            };
                        }
                        json!({"tag":"ok","b":bound_v(&(a * k))})
                    }
                    "shift" => json!({"tag":"ok","b":bound_v(&(a + to_f64(&inp["k"])))}),
                    "int_round" => json!({"tag":"ok","b":bound_v(&a.as_integer_bound())}),
                    "nearest" => json!({"tag":"ok","x":from_f64(a.nearest_to_zero())}),
                    "contains" => json!({"tag":"ok","r":a.contains(to_f64(&inp["x"]), to_f64(&inp["atol"]))}),
                    "width" => json!({"tag":"ok","x":from_f64(a.width())}),
                    o => panic!("bound op {o}"),
                }
            });
            vec![mk(out)]
        }
        "eval_bound" => {
            let out = guarded(|| {
                let f = function_from(&inp["f"]);
                let mut bounds = ommx::Bounds::new();
                for e in inp["box"].as_array().unwrap() {
                    match bound_in(&e[1]) {
                        Ok(b) => {
                            bounds.insert(ommx::VariableID::from(vid(&e[0])), b);
                        }
                        Err(e) => return json!({"tag":"bad_input","msg":e.to_string()}),
                    }
                }
                json!({"tag":"ok","b":bound_v(&f.evaluate_bound(&bounds))})
            });
            vec![mk(out)]
        }
        "content_factor" => {
            let out = guarded(|| {
                let f = function_from(&inp["f"]);
                match f.content_factor() {
                    Ok(a) => json!({"tag":"ok","a":from_f64(a),"approx":approx_rational(a, 1_000_000)}),
                    Err(e) => err(e),
                }
            });
            vec![mk(out)]
        }
        // ------------------------------------------------------------ instance level
        "seq" => crate::exec_inst::apply_seq(ev),
        "store" => crate::exec_store::apply_store(ev),
        "chain_encode" => crate::exec_inst::apply_chain_encode(ev),
        _ if crate::exec_inst::handles(name) => crate::exec_inst::apply_one(ev),
        _ if crate::exec_text::handles(name) => crate::exec_text::apply_one(ev),
        _ if crate::exec_misc::handles(name) => crate::exec_misc::apply_one(ev),
        other => vec![mk(json!({"tag":"harness_unknown_event","ev":other}))],
    }
}
