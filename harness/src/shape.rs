//! JSON shapes <-> ommx::v1 messages.  Messages are logged RAW (no canonicalisation here):
//! canonicalisation is the specification's job (Msg!Denote).
use crate::num::{from_f64, to_f64};
use ommx::v1;
use serde_json::{json, Map, Value};
use std::collections::HashMap;

fn arr(v: &Value) -> &Vec<Value> {
    v.as_array().expect("array")
}
fn u(v: &Value) -> u64 {
    v.as_u64().expect("u64")
}

// ---------- order-preserving relabelling of variable ids ("lift") ----------
// The judge works with ids below 2^31.  An event that carries "lift": "A"|"B"|"C"|"D"|"E" is executed with every variable
// id x replaced by a 64-bit id (strictly monotone in x, so sorted output stays sorted) and its observations are
// mapped back before they are logged.  An id the code under test returns that is not the image of any id is logged
// as NOT_AN_IMAGE, an id no vector uses, so the judge rejects it.
thread_local! { static LIFT: std::cell::Cell<u8> = const { std::cell::Cell::new(0) }; }
thread_local! { static LIFT_TOP: std::cell::Cell<u64> = const { std::cell::Cell::new(0) }; }
/// mode E needs the largest variable id of the vector: it becomes u64::MAX, the others follow directly below it
pub fn set_lift_top(m: u64) {
    LIFT_TOP.with(|t| t.set(m));
}
/// largest variable id mentioned anywhere in a function-level vector
pub fn max_var_id(v: &Value) -> u64 {
    match v {
        Value::Object(o) => o.iter().map(|(k, x)| match (k.as_str(), x) {
            ("id", Value::Number(n)) => n.as_u64().unwrap_or(0),
            ("ids" | "rows" | "columns", Value::Array(a)) => a.iter().filter_map(|n| n.as_u64()).max().unwrap_or(0),
            ("st" | "repl" | "box" | "terms" | "entries", Value::Array(a)) => a.iter().map(|e| match e {
                Value::Array(p) => p.first().and_then(|n| n.as_u64()).unwrap_or(0)
                    .max(if k == "entries" { p.get(1).and_then(|n| n.as_u64()).unwrap_or(0) } else { 0 })
                    .max(match p.first() { Some(Value::Array(ids)) => ids.iter().filter_map(|n| n.as_u64()).max().unwrap_or(0), _ => 0 })
                    .max(p.first().map(max_var_id).unwrap_or(0)).max(p.get(1).map(max_var_id).unwrap_or(0)),
                other => max_var_id(other),
            }).max().unwrap_or(0),
            (_, other) => max_var_id(other),
        }).max().unwrap_or(0),
        Value::Array(a) => a.iter().map(max_var_id).max().unwrap_or(0),
        _ => 0,
    }
}
pub const NOT_AN_IMAGE: u64 = 999_983;
pub fn set_lift(mode: Option<&str>) {
    LIFT.with(|l| l.set(match mode { Some("A") => 1, Some("B") => 2, Some("C") => 3, Some("D") => 4, Some("E") => 5, _ => 0 }));
}
pub fn up(x: u64) -> u64 {
    match LIFT.with(|l| l.get()) {
        0 => x,
        _ if x >= (1 << 32) => panic!("lift: id {x} too large"),
        1 => x << 32,                                  // low word zero: truncation to 32 bits collapses all ids
        2 => (x << 32) | 0xFFFF_FFFF,                  // low word all ones
        3 => u64::MAX - 0xFFFF_FFFF + x,               // top of the u64 range (2^32-1 |-> u64::MAX)
        4 => if x < 2 { x } else { u64::MAX - 0xFFFF_FFFF + x }, // mixed: ids 0 and 1 stay, the others go above 2^63
        _ => u64::MAX - (LIFT_TOP.with(|t| t.get()).max(x) - x),    // the largest id of the vector becomes u64::MAX itself
    }
}
pub fn down(y: u64) -> u64 {
    match LIFT.with(|l| l.get()) {
        0 => y,
        1 => if y & 0xFFFF_FFFF == 0 { y >> 32 } else { NOT_AN_IMAGE },
        2 => if y & 0xFFFF_FFFF == 0xFFFF_FFFF { y >> 32 } else { NOT_AN_IMAGE },
        3 => if y >= u64::MAX - 0xFFFF_FFFF { y - (u64::MAX - 0xFFFF_FFFF) } else { NOT_AN_IMAGE },
        4 => if y < 2 { y } else if y >= u64::MAX - 0xFFFF_FFFF + 2 { y - (u64::MAX - 0xFFFF_FFFF) } else { NOT_AN_IMAGE },
        _ => { let top = LIFT_TOP.with(|t| t.get()); if y >= u64::MAX - top { top - (u64::MAX - y) } else { NOT_AN_IMAGE } }
    }
}
/// a variable (or parameter) id read from a vector
pub fn vid(v: &Value) -> u64 {
    up(u(v))
}
pub fn vids_to<'a>(it: impl IntoIterator<Item = &'a u64>) -> Vec<u64> {
    it.into_iter().map(|x| down(*x)).collect()
}
pub fn opt<'a>(v: &'a Value) -> Option<&'a Value> {
    arr(v).first()
}
pub fn some(v: Value) -> Value {
    json!([v])
}
pub fn none() -> Value {
    json!([])
}
pub fn optv<T>(o: &Option<T>, f: impl Fn(&T) -> Value) -> Value {
    match o {
        Some(x) => some(f(x)),
        None => none(),
    }
}

// ---------- functions ----------
pub fn linear_from(v: &Value) -> v1::Linear {
    let mut l = v1::Linear::default();
    for t in arr(&v["terms"]) {
        let mut term = v1::linear::Term::default();
        term.id = vid(&t["id"]);
        term.coefficient = to_f64(&t["c"]);
        l.terms.push(term);
    }
    l.constant = to_f64(&v["constant"]);
    l
}
pub fn quadratic_from(v: &Value) -> v1::Quadratic {
    let mut q = v1::Quadratic::default();
    q.rows = arr(&v["rows"]).iter().map(vid).collect();
    q.columns = arr(&v["columns"]).iter().map(vid).collect();
    q.values = arr(&v["values"]).iter().map(to_f64).collect();
    q.linear = opt(&v["linear"]).map(linear_from);
    q
}
pub fn polynomial_from(v: &Value) -> v1::Polynomial {
    let mut p = v1::Polynomial::default();
    for t in arr(&v["terms"]) {
        let mut m = v1::Monomial::default();
        m.ids = arr(&t["ids"]).iter().map(vid).collect();
        m.coefficient = to_f64(&t["c"]);
        p.terms.push(m);
    }
    p
}
pub fn function_from(v: &Value) -> v1::Function {
    let mut f = v1::Function::default();
    f.function = match v["kind"].as_str().expect("kind") {
        "none" => None,
        "constant" => Some(v1::function::Function::Constant(to_f64(&v["c"]))),
        "linear" => Some(v1::function::Function::Linear(linear_from(v))),
        "quadratic" => Some(v1::function::Function::Quadratic(quadratic_from(v))),
        "polynomial" => Some(v1::function::Function::Polynomial(polynomial_from(v))),
        k => panic!("unknown function kind {k}"),
    };
    f
}
pub fn linear_to(l: &v1::Linear) -> Value {
    json!({"kind":"linear",
        "terms": l.terms.iter().map(|t| json!({"id": down(t.id), "c": from_f64(t.coefficient)})).collect::<Vec<_>>(),
        "constant": from_f64(l.constant)})
}
pub fn quadratic_to(q: &v1::Quadratic) -> Value {
    json!({"kind":"quadratic", "rows": vids_to(&q.rows), "columns": vids_to(&q.columns),
        "values": q.values.iter().map(|x| from_f64(*x)).collect::<Vec<_>>(),
        "linear": optv(&q.linear, linear_to)})
}
pub fn polynomial_to(p: &v1::Polynomial) -> Value {
    json!({"kind":"polynomial",
        "terms": p.terms.iter().map(|m| json!({"ids": vids_to(&m.ids), "c": from_f64(m.coefficient)})).collect::<Vec<_>>()})
}
pub fn function_to(f: &v1::Function) -> Value {
    match &f.function {
        None => json!({"kind":"none"}),
        Some(v1::function::Function::Constant(c)) => json!({"kind":"constant","c":from_f64(*c)}),
        Some(v1::function::Function::Linear(l)) => linear_to(l),
        Some(v1::function::Function::Quadratic(q)) => quadratic_to(q),
        Some(v1::function::Function::Polynomial(p)) => polynomial_to(p),
        #[allow(unreachable_patterns)]
        Some(_) => json!({"kind":"unknown"}),
    }
}

// ---------- state / maps ----------
pub fn state_from(v: &Value) -> v1::State {
    let mut s = v1::State::default();
    for e in arr(v) {
        s.entries.insert(vid(&e[0]), to_f64(&e[1]));
    }
    s
}
pub fn f64map_to(m: &HashMap<u64, f64>) -> Value {
    let mut es: Vec<_> = m.iter().collect();
    es.sort_by_key(|(k, _)| **k);
    Value::Array(es.into_iter().map(|(k, x)| json!([down(*k), from_f64(*x)])).collect())
}
pub fn state_to(s: &v1::State) -> Value {
    f64map_to(&s.entries)
}
pub fn boolmap_to(m: &HashMap<u64, bool>) -> Value {
    let mut es: Vec<_> = m.iter().collect();
    es.sort_by_key(|(k, _)| **k);
    Value::Array(es.into_iter().map(|(k, x)| json!([k, x])).collect())
}
pub fn boolmap_from(v: &Value) -> HashMap<u64, bool> {
    arr(v).iter().map(|e| (u(&e[0]), e[1].as_bool().unwrap())).collect()
}
pub fn strmap_to(m: &HashMap<String, String>) -> Value {
    let mut es: Vec<_> = m.iter().collect();
    es.sort();
    Value::Array(es.into_iter().map(|(k, x)| json!([k, x])).collect())
}
pub fn strmap_from(v: &Value) -> HashMap<String, String> {
    arr(v)
        .iter()
        .map(|e| (e[0].as_str().unwrap().to_string(), e[1].as_str().unwrap().to_string()))
        .collect()
}
fn optstr_from(v: &Value) -> Option<String> {
    opt(v).map(|s| s.as_str().unwrap().to_string())
}
fn optstr_to(o: &Option<String>) -> Value {
    optv(o, |s| json!(s))
}

// ---------- enums ----------
// (symbolic through the SDK's own enum constants, so that the harness follows the SDK's numbering;
//  the numbering itself is the subject of C07)
use v1::decision_variable::Kind as K;
use v1::instance::Sense as S;
use v1::Equality as E;
const KINDS: [(&str, K); 6] = [("unspecified", K::Unspecified), ("binary", K::Binary), ("integer", K::Integer),
    ("continuous", K::Continuous), ("semi_integer", K::SemiInteger), ("semi_continuous", K::SemiContinuous)];
const EQS: [(&str, E); 3] = [("unspecified", E::Unspecified), ("eq", E::EqualToZero), ("le", E::LessThanOrEqualToZero)];
const SENSES: [(&str, S); 3] = [("unspecified", S::Unspecified), ("min", S::Minimize), ("max", S::Maximize)];
fn raw_from(s: &str) -> i32 {
    s.strip_prefix("raw").and_then(|n| n.parse().ok()).expect("enum token")
}
pub fn kind_from(s: &str) -> i32 {
    KINDS.iter().find(|(n, _)| *n == s).map(|(_, k)| *k as i32).unwrap_or_else(|| raw_from(s))
}
pub fn kind_to(k: i32) -> String {
    KINDS.iter().find(|(_, x)| *x as i32 == k).map(|(n, _)| n.to_string()).unwrap_or_else(|| format!("raw{k}"))
}
pub fn eq_from(s: &str) -> i32 {
    EQS.iter().find(|(n, _)| *n == s).map(|(_, k)| *k as i32).unwrap_or_else(|| raw_from(s))
}
pub fn eq_to(k: i32) -> String {
    EQS.iter().find(|(_, x)| *x as i32 == k).map(|(n, _)| n.to_string()).unwrap_or_else(|| format!("raw{k}"))
}
pub fn sense_from(s: &str) -> i32 {
    SENSES.iter().find(|(n, _)| *n == s).map(|(_, k)| *k as i32).unwrap_or_else(|| raw_from(s))
}
pub fn sense_to(k: i32) -> String {
    SENSES.iter().find(|(_, x)| *x as i32 == k).map(|(n, _)| n.to_string()).unwrap_or_else(|| format!("raw{k}"))
}

// ---------- bounds, variables, constraints ----------
pub fn bound_from(v: &Value) -> v1::Bound {
    let mut b = v1::Bound::default();
    b.lower = to_f64(&v["lo"]);
    b.upper = to_f64(&v["hi"]);
    b
}
pub fn bound_to(b: &v1::Bound) -> Value {
    json!({"lo": from_f64(b.lower), "hi": from_f64(b.upper)})
}
pub fn var_from(v: &Value) -> v1::DecisionVariable {
    let mut d = v1::DecisionVariable::default();
    d.id = vid(&v["id"]);
    d.kind = kind_from(v["kind"].as_str().unwrap());
    d.bound = opt(&v["bound"]).map(bound_from);
    d.substituted_value = opt(&v["fixed"]).map(to_f64);
    d.name = optstr_from(&v["name"]);
    d.subscripts = arr(&v["subs"]).iter().map(|x| x.as_i64().unwrap()).collect();
    d.parameters = strmap_from(&v["params"]);
    d.description = optstr_from(&v["desc"]);
    d
}
pub fn var_to(d: &v1::DecisionVariable) -> Value {
    json!({"id": down(d.id), "kind": kind_to(d.kind), "bound": optv(&d.bound, bound_to),
        "fixed": optv(&d.substituted_value, |x| from_f64(*x)),
        "name": optstr_to(&d.name), "subs": d.subscripts, "params": strmap_to(&d.parameters),
        "desc": optstr_to(&d.description)})
}
pub fn con_from(v: &Value) -> v1::Constraint {
    let mut c = v1::Constraint::default();
    c.id = u(&v["id"]);
    c.equality = eq_from(v["eq"].as_str().unwrap());
    c.function = opt(&v["f"]).map(function_from);
    c.name = optstr_from(&v["name"]);
    c.subscripts = arr(&v["subs"]).iter().map(|x| x.as_i64().unwrap()).collect();
    c.parameters = strmap_from(&v["params"]);
    c.description = optstr_from(&v["desc"]);
    c
}
pub fn con_to(c: &v1::Constraint) -> Value {
    json!({"id": c.id, "eq": eq_to(c.equality), "f": optv(&c.function, function_to),
        "name": optstr_to(&c.name), "subs": c.subscripts, "params": strmap_to(&c.parameters),
        "desc": optstr_to(&c.description)})
}
pub fn removed_from(v: &Value) -> v1::RemovedConstraint {
    let mut r = v1::RemovedConstraint::default();
    r.constraint = opt(&v["c"]).map(con_from);
    r.removed_reason = v["reason"].as_str().unwrap().to_string();
    r.removed_reason_parameters = strmap_from(&v["rparams"]);
    r
}
pub fn removed_to(r: &v1::RemovedConstraint) -> Value {
    json!({"c": optv(&r.constraint, con_to), "reason": r.removed_reason,
        "rparams": strmap_to(&r.removed_reason_parameters)})
}
pub fn deps_from(v: &Value) -> HashMap<u64, v1::Function> {
    arr(v).iter().map(|e| (vid(&e[0]), function_from(&e[1]))).collect()
}
pub fn deps_to(m: &HashMap<u64, v1::Function>) -> Value {
    let mut es: Vec<_> = m.iter().collect();
    es.sort_by_key(|(k, _)| **k);
    Value::Array(es.into_iter().map(|(k, f)| json!([down(*k), function_to(f)])).collect())
}
pub fn hints_from(v: &Value) -> v1::ConstraintHints {
    let mut h = v1::ConstraintHints::default();
    for o in arr(&v["onehot"]) {
        let mut x = v1::OneHot::default();
        x.constraint_id = u(&o["cid"]);
        x.decision_variables = arr(&o["vars"]).iter().map(vid).collect();
        h.one_hot_constraints.push(x);
    }
    for o in arr(&v["sos1"]) {
        let mut x = v1::Sos1::default();
        x.binary_constraint_id = u(&o["bin"]);
        x.big_m_constraint_ids = arr(&o["bigm"]).iter().map(u).collect();
        x.decision_variables = arr(&o["vars"]).iter().map(vid).collect();
        h.sos1_constraints.push(x);
    }
    h
}
pub fn hints_to(h: &v1::ConstraintHints) -> Value {
    json!({"onehot": h.one_hot_constraints.iter().map(|o| json!({"cid": o.constraint_id, "vars": vids_to(&o.decision_variables)})).collect::<Vec<_>>(),
           "sos1": h.sos1_constraints.iter().map(|o| json!({"bin": o.binary_constraint_id, "bigm": o.big_m_constraint_ids, "vars": vids_to(&o.decision_variables)})).collect::<Vec<_>>()})
}
fn desc_from(v: &Value) -> v1::instance::Description {
    let mut d = v1::instance::Description::default();
    d.name = optstr_from(&v["name"]);
    d.description = optstr_from(&v["description"]);
    d.authors = arr(&v["authors"]).iter().map(|s| s.as_str().unwrap().to_string()).collect();
    d.created_by = optstr_from(&v["created_by"]);
    d
}
fn desc_to(d: &v1::instance::Description) -> Value {
    json!({"name": optstr_to(&d.name), "description": optstr_to(&d.description), "authors": d.authors,
        "created_by": optstr_to(&d.created_by)})
}
pub fn param_from(v: &Value) -> v1::Parameter {
    let mut p = v1::Parameter::default();
    p.id = u(&v["id"]);
    p.name = optstr_from(&v["name"]);
    p.subscripts = arr(&v["subs"]).iter().map(|x| x.as_i64().unwrap()).collect();
    p.parameters = strmap_from(&v["params"]);
    p.description = optstr_from(&v["desc"]);
    p
}
pub fn param_to(p: &v1::Parameter) -> Value {
    json!({"id": p.id, "name": optstr_to(&p.name), "subs": p.subscripts, "params": strmap_to(&p.parameters),
        "desc": optstr_to(&p.description)})
}

// ---------- instances ----------
pub fn instance_from(v: &Value) -> v1::Instance {
    let mut i = v1::Instance::default();
    i.sense = sense_from(v["sense"].as_str().unwrap());
    i.decision_variables = arr(&v["vars"]).iter().map(var_from).collect();
    i.objective = opt(&v["objective"]).map(function_from);
    i.constraints = arr(&v["constraints"]).iter().map(con_from).collect();
    i.removed_constraints = arr(&v["removed"]).iter().map(removed_from).collect();
    i.decision_variable_dependency = deps_from(&v["deps"]);
    i.parameters = opt(&v["params"]).map(|s| {
        let mut p = v1::Parameters::default();
        p.entries = state_from(s).entries;
        p
    });
    i.constraint_hints = opt(&v["hints"]).map(hints_from);
    i.description = opt(&v["description"]).map(desc_from);
    i
}
pub fn instance_to(i: &v1::Instance) -> Value {
    json!({"sense": sense_to(i.sense),
        "vars": i.decision_variables.iter().map(var_to).collect::<Vec<_>>(),
        "objective": optv(&i.objective, function_to),
        "constraints": i.constraints.iter().map(con_to).collect::<Vec<_>>(),
        "removed": i.removed_constraints.iter().map(removed_to).collect::<Vec<_>>(),
        "deps": deps_to(&i.decision_variable_dependency),
        "params": optv(&i.parameters, |p| f64map_to(&p.entries)),
        "hints": optv(&i.constraint_hints, hints_to),
        "description": optv(&i.description, desc_to),
        "parameters": []})
}
pub fn pinstance_from(v: &Value) -> v1::ParametricInstance {
    let mut i = v1::ParametricInstance::default();
    i.sense = sense_from(v["sense"].as_str().unwrap());
    i.decision_variables = arr(&v["vars"]).iter().map(var_from).collect();
    i.objective = opt(&v["objective"]).map(function_from);
    i.constraints = arr(&v["constraints"]).iter().map(con_from).collect();
    i.removed_constraints = arr(&v["removed"]).iter().map(removed_from).collect();
    i.decision_variable_dependency = deps_from(&v["deps"]);
    i.parameters = arr(&v["parameters"]).iter().map(param_from).collect();
    i.constraint_hints = opt(&v["hints"]).map(hints_from);
    i.description = opt(&v["description"]).map(desc_from);
    i
}
pub fn pinstance_to(i: &v1::ParametricInstance) -> Value {
    json!({"sense": sense_to(i.sense),
        "vars": i.decision_variables.iter().map(var_to).collect::<Vec<_>>(),
        "objective": optv(&i.objective, function_to),
        "constraints": i.constraints.iter().map(con_to).collect::<Vec<_>>(),
        "removed": i.removed_constraints.iter().map(removed_to).collect::<Vec<_>>(),
        "deps": deps_to(&i.decision_variable_dependency),
        "params": [],
        "hints": optv(&i.constraint_hints, hints_to),
        "description": optv(&i.description, desc_to),
        "parameters": i.parameters.iter().map(param_to).collect::<Vec<_>>()})
}

// ---------- solutions ----------
pub fn evaluated_to(c: &v1::EvaluatedConstraint) -> Value {
    json!({"id": c.id, "eq": eq_to(c.equality), "value": from_f64(c.evaluated_value),
        "used": vids_to(&c.used_decision_variable_ids), "name": optstr_to(&c.name), "subs": c.subscripts,
        "params": strmap_to(&c.parameters), "desc": optstr_to(&c.description),
        "removed_reason": optstr_to(&c.removed_reason), "rparams": strmap_to(&c.removed_reason_parameters),
        "dual": optv(&c.dual_variable, |x| from_f64(*x))})
}
pub fn solution_to(s: &v1::Solution) -> Value {
    json!({"objective": from_f64(s.objective), "feasible": s.feasible,
        "feasible_relaxed": optv(&s.feasible_relaxed, |b| json!(b)),
        "state": optv(&s.state, state_to),
        "vars": s.decision_variables.iter().map(var_to).collect::<Vec<_>>(),
        "evaluated": s.evaluated_constraints.iter().map(evaluated_to).collect::<Vec<_>>(),
        "optimality": s.optimality, "relaxation": s.relaxation})
}

// ---------- samples ----------
pub fn samples_from(v: &Value) -> v1::Samples {
    let mut s = v1::Samples::default();
    for e in arr(v) {
        let mut ent = v1::samples::SamplesEntry::default();
        ent.state = opt(&e["state"]).map(state_from);
        ent.ids = arr(&e["ids"]).iter().map(u).collect();
        s.entries.push(ent);
    }
    s
}
pub fn sv_from(v: &Value) -> v1::SampledValues {
    let mut s = v1::SampledValues::default();
    for e in arr(v) {
        let mut ent = v1::sampled_values::SampledValuesEntry::default();
        ent.value = to_f64(&e["value"]);
        ent.ids = arr(&e["ids"]).iter().map(u).collect();
        s.entries.push(ent);
    }
    s
}
pub fn sv_to(s: &v1::SampledValues) -> Value {
    Value::Array(s.entries.iter().map(|e| json!({"value": from_f64(e.value), "ids": e.ids})).collect())
}
pub fn sampled_con_to(c: &v1::SampledConstraint) -> Value {
    json!({"id": c.id, "eq": eq_to(c.equality), "values": optv(&c.evaluated_values, sv_to),
        "used": vids_to(&c.used_decision_variable_ids), "name": optstr_to(&c.name), "subs": c.subscripts,
        "params": strmap_to(&c.parameters), "desc": optstr_to(&c.description),
        "removed_reason": optstr_to(&c.removed_reason), "rparams": strmap_to(&c.removed_reason_parameters),
        "feasible": boolmap_to(&c.feasible)})
}
pub fn sampled_con_from(v: &Value) -> v1::SampledConstraint {
    let mut c = v1::SampledConstraint::default();
    c.id = u(&v["id"]);
    c.equality = eq_from(v["eq"].as_str().unwrap());
    c.evaluated_values = opt(&v["values"]).map(sv_from);
    c.used_decision_variable_ids = arr(&v["used"]).iter().map(u).collect();
    c.name = optstr_from(&v["name"]);
    c.subscripts = arr(&v["subs"]).iter().map(|x| x.as_i64().unwrap()).collect();
    c.parameters = strmap_from(&v["params"]);
    c.description = optstr_from(&v["desc"]);
    c.removed_reason = optstr_from(&v["removed_reason"]);
    c.removed_reason_parameters = strmap_from(&v["rparams"]);
    c.feasible = boolmap_from(&v["feasible"]);
    c
}
pub fn sampleset_to(s: &v1::SampleSet) -> Value {
    #[allow(deprecated)]
    let unrelaxed = boolmap_to(&s.feasible_unrelaxed);
    json!({"objectives": optv(&s.objectives, sv_to),
        "vars": s.decision_variables.iter().map(|d| json!({"v": optv(&d.decision_variable, var_to), "samples": optv(&d.samples, sv_to)})).collect::<Vec<_>>(),
        "constraints": s.constraints.iter().map(sampled_con_to).collect::<Vec<_>>(),
        "feasible": boolmap_to(&s.feasible), "feasible_relaxed": boolmap_to(&s.feasible_relaxed),
        "feasible_unrelaxed": unrelaxed, "sense": sense_to(s.sense)})
}
pub fn sampleset_from(v: &Value) -> v1::SampleSet {
    let mut s = v1::SampleSet::default();
    s.objectives = opt(&v["objectives"]).map(sv_from);
    for d in arr(&v["vars"]) {
        let mut x = v1::SampledDecisionVariable::default();
        x.decision_variable = opt(&d["v"]).map(var_from);
        x.samples = opt(&d["samples"]).map(sv_from);
        s.decision_variables.push(x);
    }
    s.constraints = arr(&v["constraints"]).iter().map(sampled_con_from).collect();
    s.feasible = boolmap_from(&v["feasible"]);
    s.feasible_relaxed = boolmap_from(&v["feasible_relaxed"]);
    #[allow(deprecated)]
    {
        s.feasible_unrelaxed = boolmap_from(&v["feasible_unrelaxed"]);
    }
    s.sense = sense_from(v["sense"].as_str().unwrap());
    s
}

pub fn obj(pairs: Vec<(&str, Value)>) -> Value {
    let mut m = Map::new();
    for (k, v) in pairs {
        m.insert(k.to_string(), v);
    }
    Value::Object(m)
}
