"""Per-property plan: which model-checking runs (M), generators (A), drivers (B) feed the judge,
and which clauses of which events decide the property (OWN)."""

def G(name, cfg, module="Gen_Fn.tla", **kw):
    d = {"name": name, "module": module, "cfg_quick": cfg, "cfg_thorough": cfg.replace(".cfg", "_T.cfg")}
    d.update(kw)
    return d

def M(name, module, cfg, **kw):
    d = {"name": name, "module": module, "cfg_quick": cfg, "cfg_thorough": cfg.replace(".cfg", "_T.cfg")}
    d.update(kw)
    return d

MC_POLY = M("poly", "MC_Poly.tla", "MC_Poly.cfg")
MC_INST = M("instsm", "MC_InstSM.tla", "MC_InstSM.cfg")
# the same state machine with the id-creating calls (log-encode + substitute, integer slack) enabled
MC_INST_NEW = {"name": "instsm_new", "module": "MC_InstSM.tla", "cfg_quick": "MC_InstSM_N.cfg", "cfg_thorough": "MC_InstSM_NT.cfg", "timeout": 6000}
MC_INTERVAL = {"name": "interval", "module": "MC_Interval.tla", "cfg_quick": "MC_Interval.cfg"}
MC_EVALDEPS = {"name": "evaldeps", "module": "EvalDeps.tla", "cfg_quick": "EvalDeps_Q.cfg", "cfg_thorough": "EvalDeps.cfg"}

def D(group, nq, nt):
    return {"group": group, "n_quick": nq, "n_thorough": nt}

def schema_events(wd, quick, seed):
    import sys, os, json
    sys.path.insert(0, os.path.join(os.path.dirname(os.path.abspath(__file__)), "tools"))
    import schema_tables
    repo = os.environ.get("VERIF_REPO", "/repo")
    evs, P = schema_tables.events(repo)
    evs.append({"ev": "artifact_file", "case": "legacy-artifact", "src": "static", "in": {"path": repo + "/data/random_lp_instance.ommx"}})
    return evs

def schema_events_sampleset(wd, quick, seed):
    """C15: 'sample sets decoded from messages written by releases that used the older feasibility fields' -- the published
    numbering of the sample-set messages must still be the one the live schema and the bindings use."""
    keep = {"sampleset", "sampledvalues", "sampledvalues.sampledvaluesentry", "sampleddecisionvariable", "sampledconstraint",
            "samples", "samples.samplesentry", "state", "instance.sense"}
    return [e for e in schema_events(wd, quick, seed) if e["ev"] in ("schema_msg", "schema_enum") and e["in"]["name"] in keep]

# every history of the instance state machine as a seq vector (direction A for MC_InstSM)
GSM_S = G("instsm_hist", "Gen_InstSM_S.cfg", module="Gen_InstSM.tla", cfg_thorough="Gen_InstSM.cfg")
GSM = G("instsm_hist", "Gen_InstSM.cfg", module="Gen_InstSM.tla", cfg_thorough="Gen_InstSM_T.cfg")
GI = lambda name, cfgname: G(name, f"Gen_Inst_{cfgname}.cfg", module="Gen_Inst.tla")

PLAN = {
    "C01": {
        "mc": [MC_POLY], "lift_every": 17, "negzero_every": 5,
        "gen": [G("eval", "Gen_Fn_Eval.cfg")],
        "drive": [D("eval_fn", 3000, 300000)],
        "exhaustive_note": "all function messages with <=3 linear terms / <=2 quadratic entries (+optional linear part) / <=2 monomials of length <=3 over ids {1,2}, coefficients {-1,0,2,1/2}, x 9 states (6 complete, 3 missing a variable) x 2 entry points",
    },
    "C02": {
        "mc": [MC_POLY], "lift_every": 17, "negzero_every": 5, "rescale_every": 3,
        "gen": [G("arith", "Gen_Fn_Arith.cfg"), G("arithdeep", "Gen_Fn_ArithDeep.cfg", tier="thorough"), G("fninfo", "Gen_Fn_FnInfo.cfg"),
                G("fmt", "Gen_Fn_Fmt.cfg"), G("ctor", "Gen_Fn_Ctor.cfg")],
        "drive": [D("arith", 3000, 300000)],
        "exhaustive_note": "every (op, lhs kind, rhs kind) the API defines (107 + 7 negations) x a thin operand family per kind (incl. quadratics listing a pair in both triangles, decision variables of every kind)",
    },
    "C03": {
        "mc": [MC_POLY, MC_INST], "lift_every": 17, "negzero_every": 5, "lift_inst_every": 5,
        "gen": [G("partial", "Gen_Fn_Partial.cfg"), GSM_S],
        "drive": [D("partial_fn", 3000, 200000), D("commute", 800, 40000), D("mixed", 300, 15000)],
    },
    "C04": {
        "mc": [MC_POLY, MC_INST, MC_EVALDEPS], "lift_every": 17,
        "gen": [G("subst", "Gen_Fn_Subst.cfg"), GSM_S],
        "drive": [D("subst_fn", 2000, 100000), D("inst_subst", 800, 40000), D("deps_order", 300, 5000), D("chain_encode", 300, 10000), D("mixed", 300, 15000)],
    },
    "C05": {
        "mc": [MC_INST], "gen": [GI("evaluate", "Evaluate")], "drive": [D("evaluate", 2000, 100000), D("mixed", 300, 15000)],
        "lift_inst_every": 5,
        "exhaustive_note": "tolerance grid (67u/68u around 1e-6, 6u/7u around 1e-7, u = 2^-26) and the exact floats +-1e-6/+-1e-7; every kind x bound shape of an irrelevant variable; explicit binary bounds; chained dependents in both map orders",
    },
    "C06": {
        "mc": [MC_INST], "gen": [GI("samples", "Samples")], "drive": [D("samples", 1000, 50000)], "lift_inst_every": 5,
        "exhaustive_note": "all assignments of 3 states (one omitting an irrelevant variable) to <= 3 sample ids, grouped or in separate entries, with and without a fixed variable; samples exactly at the tolerance",
    },
    "C07": {
        "schema": True, "reencode": True,
        "mc": [M("wire", "MC_Wire.tla", "MC_Wire.cfg")], "via_artifact": True,
        "gen": [G("wire", "Gen_Wire.cfg", module="Gen_Wire.tla")],
        "drive": [D("wire", 600, 20000)],
        "static": [schema_events],
        "exhaustive_note": "every message type of the schema x {empty, all fields set at depth 1..2 x 4 oneof arms x 8 layouts, each field alone x 4 layouts}; all 31 message and 5 enum tables compared three ways",
        "chunk": 800,
    },
    "C08": {
        "mc": [M("validate", "MC_Validate.tla", "MC_Validate.cfg")],
        "gen": [G("faults", "Gen_Validate.cfg", module="Gen_Validate.tla")],
        "drive": [D("validate", 500, 20000), D("mixed", 300, 15000)],
        "exhaustive_note": "every single fault (quick) / every ordered pair of faults (thorough) of two base instances: duplicate ids (vars; constraints within and across lists), undefined ids at each position and in each function shape, each required field unset, each bound shape, repeated ids in hints",
    },
    "C09": {
        "mc": [MC_INST], "gen": [GI("penalty", "Penalty")], "drive": [D("penalty", 1000, 50000), D("mixed", 300, 15000), D("pipeline", 150, 8000)],
        "exhaustive_note": "2 senses x 3 constraint lists (empty / one / three in non-ascending id order, one without function) x {no, one} previously removed constraint, an unused variable, both methods",
    },
    "C10": {"mc": [MC_INST], "gen": [GI("penalty", "Penalty")], "drive": [D("with_parameters", 1500, 60000), D("pipeline", 150, 8000)]},
    "C11": {
        "mc": [MC_POLY], "gen": [GI("qubo", "Qubo")], "drive": [D("pubo", 1000, 40000), D("mixed", 300, 15000), D("pipeline", 150, 8000)],
        "exhaustive_note": "all small binary objectives of the family BinObjs (every representation, powers, three distinct variables) x {pubo, qubo} x {ok, maximise, constrained, non-binary}",
    },
    "C12": {
        "mc": [M("logencode", "MC_LogEncode.tla", "MC_LogEncode.cfg"), MC_INST_NEW], "proofs": ["CompleteSequence.tla"], "gen": [GI("logencode", "LogEncode"), GSM_S], "drive": [D("log_encode", 1000, 50000), D("mixed", 300, 15000), D("pipeline", 150, 8000)],
        "exhaustive_note": "every (l,u) in halves in [-8,8]; quarters and tenths with independent fractional parts; every width 1..600 (quick) / 4096 (thorough) at 3 offsets up to 2^20; ends one grid step (2^-26) on either side of an integer; every error condition; every history of <= 2 (quick) / 3 (thorough) steps of the instance state machine incl. log-encode + substitute",
    },
    "C13": {
        "mc": [M("slack", "MC_Slack.tla", "MC_Slack.cfg", workers=12), MC_INST_NEW], "gen": [GI("slack", "Slack"), GSM_S], "drive": [D("slack", 1000, 40000), D("mixed", 300, 15000), D("pipeline", 150, 8000)],
        "exhaustive_note": "every f of the family SlackF (linear and bilinear, coefficients {-2,-1,1,1/2,-1/3}) x 3x3 boxes x both conversions x 2 limits, every lattice point and slack value; 8x8 coefficients in thirds and sixths x 9 boxes with the constant placing the exact minimum or maximum at 0; each rejection condition",
    },
    "C14": {
        "mc": [MC_INST], "gen": [GI("histories", "Histories"), GSM], "drive": [D("relax_restore", 600, 30000), D("mixed", 300, 15000)],
        "exhaustive_note": "all relax/restore histories of length <= 3 (quick) / 4 (thorough) over 8 operations (known, unknown, wrong-list ids, empty reason) on an instance with 3 constraints, each followed by an evaluation; every history of the instance state machine MC_InstSM of <= 3 steps with one id-creating call (quick: 3 683) / <= 4 steps with two (thorough: 45 580), each closed by three evaluations",
    },
    "C15": {
        "mc": [MC_INST, {"name": "best", "module": "MC_Best.tla", "cfg_quick": "MC_Best.cfg"}], "gen": [GI("best", "Best"), GSM_S],
        "drive": [D("as_min", 500, 20000), D("best", 1500, 60000), D("mixed", 300, 15000)],
        "static": [schema_events_sampleset],
        "exhaustive_note": "all sample sets over <= 3 ids with objectives {0,1}, every feasibility pattern, both senses, current and legacy layout, objectives stored per id or grouped by value, direct and through encode/decode",
    },
    "C16": {
        "mc": [MC_INTERVAL], "lift_every": 17, "rescale_every": 1, "negzero_every": 2,
        "gen": [G("bound", "Gen_Fn_Bound.cfg"), G("contains", "Gen_Fn_Contains.cfg"), G("evalbound", "Gen_Fn_EvalBound.cfg"), G("content", "Gen_Fn_Content.cfg")],
        "drive": [D("eval_bound", 2000, 100000), D("content_factor", 2000, 100000)],
        "exhaustive_note": "all 43 valid intervals over {-inf,-3,-1,-1/2,0,1/2,1,2,+inf}: all pairs for + and x, exponents 0..6, 4 scalings",
    },
    "C17": {
        "mc": [{"name": "mpsreader", "module": "MC_MpsReader.tla", "cfg_quick": "MC_MpsReader.cfg"}],
        "gen": [G("mps", "Gen_Mps.cfg", module="Gen_Mps.tla"),
                G("mpsrand", "Gen_MpsRand.cfg", module="Gen_Mps.tla", models=("mps_models", 300, 20000))],
        "exhaustive_note": "20 bound scenarios x marker x 8 layouts; every BOUNDS block of <= 1 lower-type (LO, LI, MI) and <= 1 upper-type (UP, UI, PL) directive in either order or one of FX, FR, BV over the values {-2,0,1,4} x marker; 3 row types x 3 RHS x 4 ranges x 3 objective RHS x 2 layouts; 5 sense forms x 8 layouts x 3 readers; 8 error classes x 8 layouts",
        "chunk": 1500,
    },
    "C18": {
        "gen": [GI("mpsrt", "MpsRoundtrip")], "drive": [D("mps_roundtrip", 1500, 60000)],
        "exhaustive_note": "3 kinds x 14 bound shapes of a used variable x 2 senses x 2 kinds of a second variable, constant-only constraints, non-contiguous ids; nonlinear objective / constraint / both",
    },
    "C19": {
        "mc": [{"name": "qplibreader", "module": "MC_QplibReader.tla", "cfg_quick": "MC_QplibReader.cfg"}],
        "gen": [G("qplib", "Gen_Qplib.cfg", module="Gen_Qplib.tla"),
                G("qplibrand", "Gen_QplibRand.cfg", module="Gen_Qplib.tla", models=("qplib_models", 300, 20000))],
        "exhaustive_note": "all 4x5x6 problem-type codes x {minimal, dense min, dense max} x 4 layouts; 4 error classes with expected line numbers",
        "chunk": 1500,
    },
    "C20": {
        "mc": [{"name": "artifact", "module": "MC_Artifact.tla", "cfg_quick": "MC_Artifact.cfg", "cfg_thorough": "MC_Artifact_T.cfg"},
               M("store", "MC_Store.tla", "MC_Store.cfg")],
        "gen": [G("artifact", "Gen_Artifact.cfg", module="Gen_Artifact.tla"), G("store", "Gen_Store.cfg", module="Gen_Store.tla"),
                # "arbitrary messages": every field layout of the four layer messages (legacy fields, unknown fields, defaults
                # written out) stored as a layer and read back with the typed getter
                G("wire", "Gen_Wire.cfg", module="Gen_Wire.tla")],
        "via_artifact": "only",
        "drive": [D("store", 300, 10000)],
        "exhaustive_note": "every add_* sequence of length <= 3 (quick) / <= 4 (thorough) over 4 kinds x 2 payloads (default = empty bytes under every kind, small), and all kind sequences up to length 4 / 6; 5x5 pairs of time annotations (s, ms, us, ns) on all four layer kinds; every history of <= 3 operations of the artifact store (2 names x 2 paths x 2 (quick) / 3 (thorough) contents)",
        "chunk": 200, "unique_names": True,
    },
}

# which clauses of which events decide the property ("*": all clauses of that event kind).  Events of other kinds that
# run along (fmt, ctor, samples_helpers, used_ids, ...) are judged as extensions of the specification: a rejection is
# reported in the evidence and as a NOTE, never as a VIOLATION of the property.
OWN = {
    "C01": {"eval_fn": "*"},
    "C02": {"arith": "*", "fn_info": "*"},
    "C03": {"partial_fn": "*", "inst_partial": "*", "commute": "*",
            "evaluate": ["objective", "constraints_bag", "feasible", "feasible_relaxed", "state_fixed", "state_given", "reject_iff"]},
    "C04": {"subst_fn": "*", "inst_subst": "*", "deps_order": "*",
            "evaluate": ["state_dependent", "reject_iff", "objective", "constraints_bag", "state_domain"]},
    "C05": {"evaluate": "*"},
    "C06": {"evaluate_samples": "*"},
    "C07": {"schema_msg": "*", "schema_enum": "*", "wire_decode": "*", "wire_encode": "*", "wire_redecode": "*", "artifact_file": "*"},
    "C08": {"validate": "*", "pvalidate": "*", "typed": "*"},
    "C09": {"penalty": "*", "uniform_penalty": "*"},
    "C10": {"with_parameters": "*", "to_parametric": "*"},
    "C11": {"pubo": "*", "qubo": "*"},
    "C12": {"log_encode": "*"},
    # C13 states the conversion to an equality RELATIONALLY (same feasible x); that the new function is literally f + s/a
    # (`function_kept`) is how the SDK does it, not what the property demands (benign/B-C13: a*f + s = 0 is as good)
    "C13": {"slack_convert": {"except": ["function_kept"]}, "slack_add": "*"},
    # the evaluations interleaved with the histories decide C14's "values and feasibility are invariant, relaxed
    # feasibility depends on the active constraints only, the reason is recorded"
    "C14": {"relax": "*", "restore": "*", "evaluate": ["constraints_bag", "feasible", "feasible_relaxed", "reject_iff", "objective"]},
    "C15": {"as_min": "*", "best": "*", "evaluate": ["objective", "reject_iff"],
            "schema_msg": ["published_kept", "rust_matches_proto"], "schema_enum": ["published_kept", "rust_matches_proto"]},
    "C16": {"bound_op": "*", "eval_bound": "*", "content_factor": "*"},
    "C17": {"mps_load": "*"},
    "C18": {"mps_roundtrip": "*"},
    "C19": {"qplib_load": {"except": ["constraint_ids"]}},
    # store_op: C20 owns what its statement covers (what is stored is read back equal, nothing else is disturbed); the
    # store's overwrite policy (`result`, `step`) is an extension of the specification
    "C20": {"artifact": "*", "wire_decode": ["no_error", "content"], "store_op": ["no_panic", "fresh_store", "readable", "stored_content", "others_untouched"]},
}

# a history that hangs or crashes the code under test counts against every property whose check performs it
for _p in OWN:
    for _ev in ("seq", "chain_encode", "store"):
        OWN[_p].setdefault(_ev, ["no_hang_no_panic"])
