#!/usr/bin/env python3
"""install a confirmed sub-agent change as /verif/seeded/S-<prop>-<name>/  (patch.diff, demo, meta.json)"""
import json, os, shutil, sys
prop, name, needs = sys.argv[1], sys.argv[2], sys.argv[3]
props = sys.argv[4].split(",") if len(sys.argv) > 4 else [prop]
d = f"/verif/seeded/S-{prop}-{name}"
os.makedirs(d, exist_ok=True)
shutil.copy(f"/tmp/wt/{prop}.patch.diff", d + "/patch.diff")
for ext in ("demo.rs", "demo.py"):
    if os.path.exists(f"/tmp/wt/{prop}.{ext}"):
        shutil.copy(f"/tmp/wt/{prop}.{ext}", d + "/" + ext)
conf = [l.strip() for l in open(sys.argv[5] if len(sys.argv) > 5 else "/tmp/wt/confirm1.log") if l.startswith(prop + ":")]
json.dump({"id": os.path.basename(d), "properties": props, "kind": "independent sub-agent (saw only the property text)",
           "needs": needs, "author_notes": open(f"/tmp/wt/{prop}.meta.txt").read(),
           "confirmed": {"how": "clean scratch worktree of /repo HEAD: git apply patch; cargo test --workspace --offline --lib --bins --tests; copy demo to rust/ommx/tests; cargo test --offline -p ommx --test demo_<id>; git apply -R; demo again",
                         "results": conf},
           "ran": "tools/run_seeded.py (git -C /repo apply, registered quick check, git checkout -- .)"}, open(d + "/meta.json", "w"), indent=1)
print(d)
