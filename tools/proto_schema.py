#!/usr/bin/env python3
"""Parse the proto3 subset used by proto/ommx/v1/*.proto into a flat schema table (JSON)."""
import re, sys, json, glob, os
SCALARS = {"double","float","int32","int64","uint32","uint64","sint32","sint64","fixed32","fixed64","sfixed32","sfixed64","bool","string","bytes"}
def strip_comments(s):
    s = re.sub(r'/\*.*?\*/', '', s, flags=re.S)
    return re.sub(r'//[^\n]*', '', s)
def tokenize(s):
    return re.findall(r'"[^"]*"|[A-Za-z_][\w.]*|\d+|[{}=;<>,\[\]()]', s)
def parse_file(path):
    toks = tokenize(strip_comments(open(path).read())); i = 0
    pkg = ""; msgs = {}; enums = {}
    def parse_enum(prefix):
        nonlocal i
        name = toks[i+1]; i += 3  # enum Name {
        vals = {}
        while toks[i] != '}':
            if toks[i] == 'option' or toks[i] == 'reserved':
                while toks[i] != ';': i += 1
                i += 1; continue
            vals[toks[i]] = int(toks[i+2]); i += 3
            if toks[i] == '[':
                while toks[i] != ']': i += 1
                i += 1
            assert toks[i] == ';', toks[i-3:i+3]; i += 1
        i += 1
        enums[prefix + name] = vals
    def parse_field(oneof, fields):
        nonlocal i
        label = "singular"
        if toks[i] in ("optional", "repeated"):
            label = toks[i]; i += 1
        if toks[i] == "map":
            kt = toks[i+2]; vt = toks[i+4]; i += 6
            typ = "map"; extra = {"key": kt, "value": vt}; label = "map"
        else:
            typ = toks[i]; i += 1; extra = {}
        name = toks[i]; num = int(toks[i+2]); i += 3
        opts = {}
        if toks[i] == '[':
            j = i
            while toks[j] != ']': j += 1
            opts = {"raw": " ".join(toks[i+1:j])}; i = j + 1
        assert toks[i] == ';', (name, toks[i]); i += 1
        f = {"name": name, "num": num, "type": typ, "label": label, "oneof": oneof or ""}
        f.update(extra)
        if opts: f["options"] = opts["raw"]
        fields.append(f)
    def parse_message(prefix):
        nonlocal i
        name = toks[i+1]; i += 3
        full = prefix + name; fields = []
        while toks[i] != '}':
            if toks[i] == 'message': parse_message(full + "."); continue
            if toks[i] == 'enum': parse_enum(full + "."); continue
            if toks[i] == 'oneof':
                on = toks[i+1]; i += 3
                while toks[i] != '}': parse_field(on, fields)
                i += 1; continue
            if toks[i] in ('option', 'reserved'):
                while toks[i] != ';': i += 1
                i += 1; continue
            parse_field(None, fields)
        i += 1
        msgs[full] = fields
    while i < len(toks):
        t = toks[i]
        if t == 'syntax' or t == 'import' or t == 'option':
            while toks[i] != ';': i += 1
            i += 1
        elif t == 'package':
            pkg = toks[i+1]; i += 3
        elif t == 'message': parse_message("")
        elif t == 'enum': parse_enum("")
        else: raise SystemExit(f"unexpected token {t} in {path}")
    return pkg, msgs, enums
def resolve(typ, scope, msgs, enums):
    """resolve a type name relative to a message scope (innermost first)"""
    if typ in SCALARS: return ("scalar", typ)
    parts = scope.split(".")
    for k in range(len(parts), -1, -1):
        cand = ".".join(parts[:k] + [typ]) if k else typ
        if cand in msgs: return ("message", cand)
        if cand in enums: return ("enum", cand)
    raise SystemExit(f"cannot resolve {typ} in {scope}")
def main(root):
    msgs = {}; enums = {}
    for p in sorted(glob.glob(os.path.join(root, "ommx/v1/*.proto"))):
        pkg, m, e = parse_file(p); msgs.update(m); enums.update(e)
    out = {"messages": {}, "enums": enums}
    for name, fields in msgs.items():
        fl = []
        for f in fields:
            g = dict(f)
            if f["type"] == "map":
                g["key_kind"], g["key"] = resolve(f["key"], name, msgs, enums)
                g["value_kind"], g["value"] = resolve(f["value"], name, msgs, enums)
                g["kind"] = "map"
            else:
                g["kind"], g["type"] = resolve(f["type"], name, msgs, enums)
            fl.append(g)
        out["messages"][name] = sorted(fl, key=lambda x: x["num"])
    return out
if __name__ == "__main__":
    s = main(sys.argv[1])
    json.dump(s, sys.stdout, indent=1)
    print(file=sys.stderr); print(len(s["messages"]), "messages", sum(len(v) for v in s["messages"].values()), "fields", len(s["enums"]), "enums", file=sys.stderr)
