#!/usr/bin/env python3
"""Run the registered quick (or thorough) checks against every seeded change under /verif/seeded:
apply patch.diff to /repo, run the check of the property named in meta.json, expect exit 1 with a VIOLATION line,
undo the patch.  Usage: tools/run_seeded.py [--tier quick|thorough] [ids...]"""
import json, os, subprocess, sys, time
ROOT = os.path.dirname(os.path.dirname(os.path.abspath(__file__)))
def main():
    args = sys.argv[1:]
    tier = "quick"
    if "--tier" in args:
        i = args.index("--tier"); tier = args[i + 1]; del args[i:i + 2]
    ids = args or sorted(d for d in os.listdir(os.path.join(ROOT, "seeded")) if os.path.isdir(os.path.join(ROOT, "seeded", d)))
    results = {}
    for sid in ids:
        d = os.path.join(ROOT, "seeded", sid)
        meta = json.load(open(os.path.join(d, "meta.json")))
        patch = os.path.join(d, "patch.diff")
        if subprocess.run(["git", "-C", "/repo", "status", "--porcelain", "--untracked-files=no"], capture_output=True, text=True).stdout.strip():
            print("refusing: /repo has local modifications"); return 2
        r = subprocess.run(["git", "-C", "/repo", "apply", patch], capture_output=True, text=True)
        if r.returncode != 0:
            print(sid, "PATCH DOES NOT APPLY", r.stderr[:300]); results[sid] = "noapply"; continue
        try:
            outcomes = []
            for prop in meta["properties"]:
                t = time.time()
                r = subprocess.run([sys.executable, os.path.join(ROOT, "check.py"), prop, "--tier", tier], cwd=ROOT, capture_output=True, text=True)
                viol = [l for l in r.stdout.splitlines() if l.startswith("VIOLATION")]
                outcomes.append((prop, r.returncode, len(viol), round(time.time() - t)))
                detail = [l for l in r.stdout.splitlines() if l.startswith("  event=")][:3]
                print(f"{sid}: {prop} exit={r.returncode} violations={len(viol)} {detail} ({outcomes[-1][3]}s)", flush=True)
                if r.returncode == 2:
                    print("   ", r.stdout[-600:])
            results[sid] = "caught" if any(o[1] == 1 and o[2] > 0 for o in outcomes) else "MISSED"
        finally:
            subprocess.run(["git", "-C", "/repo", "checkout", "--", "."], check=True)
    print(json.dumps(results, indent=1))
    return 0 if all(v == "caught" for v in results.values()) else 1
if __name__ == "__main__":
    sys.exit(main())
