#!/usr/bin/env python3
"""Extract three normalised schema tables and emit one trace event per message / enum:
   P from proto/ommx/v1/*.proto, R from the #[prost(...)] attributes of rust/ommx/src/ommx.v1.rs,
   Y from the serialized FileDescriptorProto embedded in python/ommx/ommx/v1/*_pb2.py.
   Extraction is glue; the comparison is done by TLC (JudgeWire!ClausesSchema)."""
import ast, glob, json, os, re, sys
sys.path.insert(0, os.path.dirname(os.path.abspath(__file__)))
import proto_schema

def norm(name):
    return name.replace("::", ".").replace("_", "").lower()

# ---------------------------------------------------------------- P
def table_P(repo):
    s = proto_schema.main(os.path.join(repo, "proto"))
    msgs = {}
    for name, fields in s["messages"].items():
        fl = []
        for f in fields:
            d = {"num": f["num"], "name": f["name"], "oneof": f.get("oneof", "")}
            if f["kind"] == "map":
                d.update(label="map", kind="map", type="", key=f["key"], value_kind=f["value_kind"], value=norm(f["value"]) if f["value_kind"] != "scalar" else f["value"])
            else:
                label = f["label"]
                if f["kind"] == "message" and label == "singular":
                    label = "optional"       # message fields always have presence
                if d["oneof"]:
                    label = "oneof"
                d.update(label=label, kind=f["kind"], type=norm(f["type"]) if f["kind"] != "scalar" else f["type"], key="", value_kind="", value="")
            fl.append(d)
        msgs[norm(name)] = sorted(fl, key=lambda x: x["num"])
    enums = {norm(n): sorted([[k, v] for k, v in vals.items()], key=lambda x: x[1]) for n, vals in s["enums"].items()}
    return {"messages": msgs, "enums": enums}

# ---------------------------------------------------------------- R
RUST_SCALARS = {"double", "float", "int32", "int64", "uint32", "uint64", "sint32", "sint64", "fixed32", "fixed64", "sfixed32", "sfixed64", "bool", "string", "bytes"}
def camel_to_snake(s):
    return re.sub(r'(?<!^)(?=[A-Z])', '_', s).lower()
def table_R(repo):
    src = open(os.path.join(repo, "rust/ommx/src/ommx.v1.rs")).read().split("\n")
    mods = []          # module stack with brace depth
    depth = 0
    msgs, enums, oneofs = {}, {}, {}
    cur = None         # ("struct"|"oneof"|"enum", fullname, depth)
    pending = None
    derive = ""
    strnames = {}
    handwritten = set()
    def full(name):
        return norm(".".join([m for m, _ in mods] + [name]))
    def resolve(ty):
        # rust type path of a message / enum relative to the current module
        t = re.sub(r'(::)?(core::option::Option|prost::alloc::vec::Vec|prost::alloc::boxed::Box|std::collections::HashMap)<', '<', ty)
        m = re.findall(r'[A-Za-z_][A-Za-z0-9_:]*', t)
        cand = [x for x in m if x not in ("u64", "i64", "f64", "i32", "u32", "bool", "f32") and not x.endswith("String")]
        if not cand:
            return ""
        p = cand[-1]
        parts = p.split("::")
        base = [m for m, _ in mods]
        while parts and parts[0] == "super":
            base = base[:-1]; parts = parts[1:]
        return norm(".".join(base + parts)) if True else ""
    i = 0
    while i < len(src):
        line = src[i]
        st = line.strip()
        m = re.match(r'pub mod (\w+) \{', st)
        if m:
            mods.append((m.group(1), depth))
        m = re.match(r'#\[derive\((.*)\)\]', st)
        if m:
            derive = m.group(1)
        m = re.match(r'pub struct (\w+) \{', st)
        if m:
            cur = ("struct", full(m.group(1)), depth); msgs[cur[1]] = []
            if "Message" not in derive:
                handwritten.add(cur[1])      # no derive(::prost::Message): the codec of this message is hand-written
            derive = ""
        m2 = re.match(r'pub struct (\w+) \{\}', st)
        if m2:
            msgs[full(m2.group(1))] = []; cur = None
        m = re.match(r'pub enum (\w+) \{', st)
        if m:
            if "Oneof" in derive:
                cur = ("oneof", full(m.group(1)), depth); oneofs[cur[1]] = []
            elif "Enumeration" in derive:
                cur = ("enum", full(m.group(1)), depth); enums[cur[1]] = []; strnames[cur[1]] = {}
            else:
                cur = None
        m = re.match(r'#\[prost\((.*)\)\]', st)
        if m and cur and cur[0] in ("struct", "oneof"):
            pending = m.group(1)
        elif pending and cur and cur[0] == "struct":
            # possibly multi-line field declaration
            decl = st
            j = i
            while not decl.rstrip().endswith(",") and j + 1 < len(src):
                j += 1; decl += " " + src[j].strip()
            fm = re.match(r'pub (r#)?(\w+):\s*(.*),$', decl)
            if fm:
                name, ty = fm.group(2), fm.group(3)
                msgs[cur[1]].append((pending, name, ty, [m for m, _ in mods]))
                pending = None; i = j
        elif pending and cur and cur[0] == "oneof":
            fm = re.match(r'(\w+)\((.*)\),$', st)
            if fm:
                oneofs[cur[1]].append((pending, camel_to_snake(fm.group(1)), fm.group(2), [m for m, _ in mods]))
                pending = None
        if cur and cur[0] == "enum":
            fm = re.match(r'(\w+) = (-?\d+),$', st)
            if fm:
                enums[cur[1]].append([fm.group(1), int(fm.group(2))])
        # as_str_name mapping: Variant => "PROTO_NAME"
        fm = re.match(r'(\w+)::(\w+) => "(\w+)",$', st)
        if fm:
            for en in strnames:
                if en.split(".")[-1] == fm.group(1).lower():
                    strnames[en].setdefault(fm.group(2), fm.group(3))
        depth += line.count("{") - line.count("}")
        while mods and depth <= mods[-1][1]:
            mods.pop()
        if cur and depth <= cur[2] and "}" in line and not re.match(r'pub (struct|enum)', st):
            cur = None
        i += 1
    def field(attr, name, ty, modstack, oneof=""):
        parts = [p.strip() for p in re.split(r',\s*(?![^"]*"\s*(?:,|$))', attr)]
        parts = [p for p in re.findall(r'(\w+\s*=\s*"[^"]*"|\w+)', attr)]
        kv = {}
        flags = []
        for p in parts:
            if "=" in p:
                k, v = p.split("=", 1); kv[k.strip()] = v.strip().strip('"')
            else:
                flags.append(p)
        saved = list(mods)
        mods[:] = [(m, 0) for m in modstack]
        d = {"num": int(kv["tag"]) if "tag" in kv else 0, "name": name, "oneof": oneof, "key": "", "value_kind": "", "value": ""}
        if "map" in kv:
            k, v = [x.strip() for x in kv["map"].split(",")]
            d.update(label="map", kind="map", type="", key=k)
            if v == "message":
                d.update(value_kind="message", value=resolve(ty))
            elif v.startswith("enumeration"):
                d.update(value_kind="enum", value=norm(re.search(r'\((.*)\)', v).group(1)))
            else:
                d.update(value_kind="scalar", value=v)
        else:
            label = "oneof" if oneof else ("repeated" if "repeated" in flags else ("optional" if "optional" in flags else "singular"))
            if "enumeration" in kv:
                base = [m for m in modstack]
                parts2 = kv["enumeration"].split("::")
                while parts2 and parts2[0] == "super":
                    base = base[:-1]; parts2 = parts2[1:]
                d.update(kind="enum", type=norm(".".join(base + parts2)), label=label)
            elif "message" in flags:
                d.update(kind="message", type=resolve(ty), label="optional" if label == "singular" else label)
            else:
                sc = [f for f in flags if f in RUST_SCALARS]
                d.update(kind="scalar", type=sc[0] if sc else "?", label=label)
        mods[:] = saved
        return d
    out = {}
    for name, fl in msgs.items():
        res = []
        for (attr, fname, ty, ms) in fl:
            if attr.startswith("oneof"):
                en = re.search(r'oneof\s*=\s*"([^"]+)"', attr).group(1)
                parts2 = en.split("::"); base = list(ms)
                while parts2 and parts2[0] == "super":
                    base = base[:-1]; parts2 = parts2[1:]
                key = norm(".".join(base + parts2))
                declared = sorted(int(x) for x in re.search(r'tags\s*=\s*"([^"]+)"', attr).group(1).split(","))
                members = [field(a, n, t, m2, oneof=fname) for (a, n, t, m2) in oneofs.get(key, [])]
                # prost routes an incoming field to the oneof only if its tag is in the struct attribute's `tags`
                # list; a member missing there is not part of the message as decoded, a tag without a member is
                # reported as a nameless field
                res.extend(m for m in members if m["num"] in declared)
                for t in declared:
                    if t not in [m["num"] for m in members]:
                        res.append({"num": t, "name": "?", "oneof": fname, "key": "", "value_kind": "", "value": "", "label": "oneof", "kind": "?", "type": "?"})
            else:
                res.append(field(attr, fname, ty, ms))
        out[name] = sorted(res, key=lambda x: x["num"])
    en_out = {}
    for en, vals in enums.items():
        en_out[en] = sorted([[strnames.get(en, {}).get(v[0], v[0]), v[1]] for v in vals], key=lambda x: x[1])
    return {"messages": out, "enums": en_out, "handwritten": sorted(handwritten)}

# ---------------------------------------------------------------- Y
def rd_varint(b, i):
    r = 0; s = 0
    while True:
        x = b[i]; i += 1
        r |= (x & 0x7f) << s; s += 7
        if x < 0x80:
            return r, i
def rd_fields(b):
    i = 0; out = []
    while i < len(b):
        k, i = rd_varint(b, i); num, wt = k >> 3, k & 7
        if wt == 0:
            v, i = rd_varint(b, i)
        elif wt == 2:
            n, i = rd_varint(b, i); v = b[i:i + n]; i += n
        elif wt == 1:
            v = b[i:i + 8]; i += 8
        elif wt == 5:
            v = b[i:i + 4]; i += 4
        else:
            raise ValueError("wire type")
        out.append((num, wt, v))
    return out
PB_TYPES = {1: "double", 2: "float", 3: "int64", 4: "uint64", 5: "int32", 6: "fixed64", 7: "fixed32", 8: "bool", 9: "string", 11: "message", 12: "bytes", 13: "uint32", 14: "enum", 15: "sfixed32", 16: "sfixed64", 17: "sint32", 18: "sint64"}
def table_Y(repo):
    msgs, enums = {}, {}
    raw_msgs = {}
    def strip_pkg(tn):
        return norm(tn.lstrip(".").split("ommx.v1.", 1)[-1])
    def do_enum(b, prefix):
        name = None; vals = []
        for num, wt, v in rd_fields(b):
            if num == 1: name = v.decode()
            if num == 2:
                n = None; x = 0
                for a, _, c in rd_fields(v):
                    if a == 1: n = c.decode()
                    if a == 2: x = c if c < (1 << 63) else c - (1 << 64)
                vals.append([n, x])
        enums[norm(prefix + name)] = sorted(vals, key=lambda x: x[1])
    def do_msg(b, prefix):
        name = None; fields = []; oneofs = []; nested = []; ens = []; map_entry = False
        for num, wt, v in rd_fields(b):
            if num == 1: name = v.decode()
            elif num == 2: fields.append(v)
            elif num == 3: nested.append(v)
            elif num == 4: ens.append(v)
            elif num == 8:
                oneofs.append([c.decode() for a, _, c in rd_fields(v) if a == 1][0])
            elif num == 7:
                for a, _, c in rd_fields(v):
                    if a == 7 and c: map_entry = True
        fl = []
        for f in fields:
            d = {"label": 1, "proto3_optional": False, "oneof_index": None, "type_name": ""}
            for a, _, c in rd_fields(f):
                if a == 1: d["name"] = c.decode()
                elif a == 3: d["num"] = c
                elif a == 4: d["label"] = c
                elif a == 5: d["type"] = c
                elif a == 6: d["type_name"] = c.decode()
                elif a == 9: d["oneof_index"] = c
                elif a == 17: d["proto3_optional"] = bool(c)
            fl.append(d)
        full = prefix + name
        raw_msgs[norm(full)] = (fl, oneofs, map_entry)
        for n in nested: do_msg(n, full + ".")
        for e in ens: do_enum(e, full + ".")
    for p in sorted(glob.glob(os.path.join(repo, "python/ommx/ommx/v1/*_pb2.py"))):
        src = open(p).read()
        m = re.search(r'AddSerializedFile\(\s*(b(?:\'(?:[^\'\\]|\\.)*\'|"(?:[^"\\]|\\.)*"))\s*\)', src, re.S)
        blob = ast.literal_eval(m.group(1))
        for num, wt, v in rd_fields(blob):
            if num == 4: do_msg(v, "")
            elif num == 5: do_enum(v, "")
    for name, (fl, oneofs, map_entry) in raw_msgs.items():
        if map_entry:
            continue
        res = []
        for d in fl:
            ty = PB_TYPES[d["type"]]
            o = {"num": d["num"], "name": d["name"], "oneof": "", "key": "", "value_kind": "", "value": ""}
            tn = strip_pkg(d["type_name"]) if d["type_name"] else ""
            if ty == "message" and tn in raw_msgs and raw_msgs[tn][2]:
                ent = {x["num"]: x for x in raw_msgs[tn][0]}
                k, v = ent[1], ent[2]
                vt = PB_TYPES[v["type"]]
                o.update(label="map", kind="map", type="", key=PB_TYPES[k["type"]],
                         value_kind="message" if vt == "message" else ("enum" if vt == "enum" else "scalar"),
                         value=strip_pkg(v["type_name"]) if vt in ("message", "enum") else vt)
            else:
                real_oneof = d["oneof_index"] is not None and not d["proto3_optional"]
                if real_oneof:
                    label = "oneof"; o["oneof"] = oneofs[d["oneof_index"]]
                elif d["label"] == 3:
                    label = "repeated"
                elif d["proto3_optional"] or ty == "message":
                    label = "optional"
                else:
                    label = "singular"
                o.update(label=label, kind="message" if ty == "message" else ("enum" if ty == "enum" else "scalar"),
                         type=tn if ty in ("message", "enum") else ty)
            res.append(o)
        msgs[name] = sorted(res, key=lambda x: x["num"])
    return {"messages": msgs, "enums": enums}

def published():
    """The schema as PUBLISHED at the pinned baseline (frozen copy: spec/published_schema.json). Releases in the field wrote
    their bytes with these numbers: the live .proto may grow, but a published field / enum value keeps number, type and label."""
    p = os.path.join(os.path.dirname(os.path.dirname(os.path.abspath(__file__))), "spec", "published_schema.json")
    return json.load(open(p))

def events(repo):
    P, R, Y = table_P(repo), table_R(repo), table_Y(repo)
    Pub = published()
    # JSON round trip so that both tables have the same shape (lists, not tuples)
    P = json.loads(json.dumps(P))
    evs = []
    names = sorted(set(P["messages"]) | set(R["messages"]) | set(Y["messages"]))
    for n in names:
        evs.append({"ev": "schema_msg", "case": f"schema-msg-{n}", "src": "static",
                    "in": {"name": n, "P": [P["messages"][n]] if n in P["messages"] else [],
                           "R": [R["messages"][n]] if n in R["messages"] else [],
                           # a message whose codec is hand-written has no attribute table: its conformance is decided by
                           # the behavioural families alone (wire_decode / wire_encode against the independent encoder)
                           "Rhand": n in R.get("handwritten", []),
                           "Pub": [Pub["messages"][n]] if n in Pub["messages"] else [],
                           "Y": [Y["messages"][n]] if n in Y["messages"] else []}, "out": {"tag": "ok"}})
    for n in sorted(set(P["enums"]) | set(R["enums"]) | set(Y["enums"])):
        evs.append({"ev": "schema_enum", "case": f"schema-enum-{n}", "src": "static",
                    "in": {"name": n, "P": [P["enums"][n]] if n in P["enums"] else [],
                           "R": [R["enums"][n]] if n in R["enums"] else [],
                           "Pub": [Pub["enums"][n]] if n in Pub["enums"] else [],
                           "Y": [Y["enums"][n]] if n in Y["enums"] else []}, "out": {"tag": "ok"}})
    # a published message / enum that the live schema no longer has at all
    for n in sorted(set(Pub["messages"]) - set(names)):
        evs.append({"ev": "schema_msg", "case": f"schema-msg-{n}", "src": "static",
                    "in": {"name": n, "P": [], "R": [], "Rhand": False, "Pub": [Pub["messages"][n]], "Y": []}, "out": {"tag": "ok"}})
    return evs, P

if __name__ == "__main__":
    repo = sys.argv[1] if len(sys.argv) > 1 else "/repo"
    evs, P = events(repo)
    bad = 0
    for e in evs:
        i = e["in"]
        ok = i["P"] == i["R"] == i["Y"]
        if not ok:
            bad += 1
            print("DIFF", i["name"])
            for k in "PRY":
                print("  ", k, json.dumps(i[k])[:1500])
    print(len(evs), "tables,", bad, "differences", file=sys.stderr)
