#!/usr/bin/env python3
"""Run the registered checks against every PROPERTY-PRESERVING change under /verif/benign: every check must exit 0
(no VIOLATION): an alarm here is a false alarm of the machinery.  (Derived from run_seeded.py.)

Run the registered checks against every change under /verif/benign.

For each seeded/<id>: a scratch worktree of /repo (HEAD) gets patch.diff applied, the check of each property named
in meta.json runs against THAT checkout (VERIF_REPO, see check.py: scratch harness build, scratch evidence), and a
VIOLATION with exit 1 is expected.  /repo itself is never modified.  With --in-place the patch is applied to /repo
(git apply / git checkout -- .) and the plain registered command is run instead.
Usage: tools/run_seeded.py [--tier quick|thorough] [--in-place] [ids...]"""
import json, os, subprocess, sys, time
ROOT = os.path.dirname(os.path.dirname(os.path.abspath(__file__)))
WT = os.environ.get("VERIF_WT", "/tmp/verif_benignrun")
def sh(*a, **k):
    return subprocess.run(list(a), capture_output=True, text=True, **k)
def main():
    args = sys.argv[1:]
    tier = "quick"
    if "--tier" in args:
        i = args.index("--tier"); tier = args[i + 1]; del args[i:i + 2]
    inplace = "--in-place" in args
    if inplace:
        args.remove("--in-place")
    ids = args or sorted(d for d in os.listdir(os.path.join(ROOT, "benign")) if os.path.isdir(os.path.join(ROOT, "benign", d)))
    results = {}
    repo = "/repo"
    if not inplace:
        sh("git", "-C", "/repo", "worktree", "remove", "--force", WT)
        r = sh("git", "-C", "/repo", "worktree", "add", "--detach", WT, "HEAD")
        if r.returncode != 0:
            print(r.stderr); return 2
        repo = WT
    try:
        for sid in ids:
            d = os.path.join(ROOT, "benign", sid)
            meta = json.load(open(os.path.join(d, "meta.json")))
            patch = os.path.join(d, "patch.diff")
            if sh("git", "-C", repo, "status", "--porcelain", "--untracked-files=no").stdout.strip():
                print(f"refusing: {repo} has local modifications"); return 2
            r = sh("git", "-C", repo, "apply", patch)
            if r.returncode != 0:
                print(sid, "PATCH DOES NOT APPLY", r.stderr[:300]); results[sid] = "noapply"; continue
            try:
                outcomes = []
                env = dict(os.environ)
                if not inplace:
                    env["VERIF_REPO"] = repo
                for prop in meta["properties"]:
                    t = time.time()
                    r = subprocess.run([sys.executable, os.path.join(ROOT, "check.py"), prop, "--tier", tier], cwd=ROOT, capture_output=True, text=True, env=env)
                    viol = [l for l in r.stdout.splitlines() if l.startswith("VIOLATION")]
                    outcomes.append((prop, r.returncode, len(viol), round(time.time() - t)))
                    detail = [l for l in r.stdout.splitlines() if l.startswith("  event=")][:3]
                    print(f"{sid}: {prop} exit={r.returncode} violations={len(viol)} {detail} ({outcomes[-1][3]}s)", flush=True)
                    if r.returncode == 2:
                        print("   ", r.stdout[-600:])
                results[sid] = "quiet" if all(o[1] == 0 for o in outcomes) else "ALARM"
            finally:
                subprocess.run(["git", "-C", repo, "checkout", "--", "."], check=True)
                if not inplace:
                    # files the patch created (the scratch worktree only; /repo is never cleaned)
                    subprocess.run(["git", "-C", repo, "clean", "-fdq", "rust", "proto", "python"], check=False)
    finally:
        if not inplace:
            sh("git", "-C", "/repo", "worktree", "remove", "--force", WT)
    print(json.dumps(results, indent=1))
    return 0 if all(v == "caught" for v in results.values()) else 1
if __name__ == "__main__":
    sys.exit(main())
