def selftest():
    pass
