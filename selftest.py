"""Self-tests of the machinery, run by `check.py --setup`:
 (i)   binding: corrupt recorded fields of real traces / drop a hook's observation and require that the TLA+ judge
       rejects exactly the corrupted events (and accepts the untouched trace);
 (ii)  vacuity: every event kind of the probe traces is judged by at least 3 named clauses;
 (iii) spec mutation: a mutated reference operator must make TLC report the model-checked property violated;
 (iv)  schema extraction: an edited tag in a copy of each schema source must show up as a table difference.
A failure here is a tool error (the machinery is broken), never a VIOLATION."""
import copy, json, os, re, shutil, subprocess, sys

ROOT = os.path.dirname(os.path.abspath(__file__))


def _bump(num):
    return [num[0] + num[1], num[1]]


def corruptions():
    """(group, n, list of (predicate, mutate, description))"""
    def ok(e):
        return e["out"].get("tag") == "ok"
    return [
        ("eval_fn", 40, [
            (lambda e: ok(e), lambda e: e["out"].__setitem__("value", _bump(e["out"]["value"])), "value + 1"),
            (lambda e: ok(e) and e["out"]["ids"], lambda e: e["out"]["ids"].pop(), "one used id dropped"),
            (lambda e: e["out"]["tag"] == "err", lambda e: e.__setitem__("out", {"tag": "ok", "value": [0, 1], "ids": []}), "err turned into ok"),
        ]),
        ("arith", 40, [
            (lambda e: ok(e) and e["out"]["f"]["kind"] == "linear", lambda e: e["out"]["f"].__setitem__("constant", _bump(e["out"]["f"]["constant"])), "constant + 1"),
        ]),
        ("evaluate", 60, [
            (lambda e: ok(e), lambda e: e["out"]["sol"].__setitem__("objective", _bump(e["out"]["sol"]["objective"])), "objective + 1"),
            (lambda e: ok(e), lambda e: e["out"]["sol"].__setitem__("feasible", not e["out"]["sol"]["feasible"]), "feasible flipped"),
            (lambda e: ok(e) and e["out"]["sol"]["evaluated"], lambda e: e["out"]["sol"]["evaluated"].pop(), "an evaluated constraint dropped"),
            (lambda e: ok(e) and e["out"]["sol"]["state"][0], lambda e: e["out"]["sol"]["state"][0][0].__setitem__(1, _bump(e["out"]["sol"]["state"][0][0][1])), "a reported value + 1"),
        ]),
        ("relax_restore", 30, [
            (lambda e: e["ev"] == "relax" and ok(e), lambda e: e["out"]["post"]["removed"][-1].__setitem__("reason", "other"), "recorded reason changed"),
            (lambda e: e["ev"] == "restore" and ok(e) and e["out"]["post"]["constraints"], lambda e: e["out"]["post"]["constraints"].pop(), "a constraint lost on restore"),
        ]),
        ("penalty", 30, [
            (lambda e: ok(e) and e["out"]["pinst"]["removed"], lambda e: e["out"]["pinst"]["removed"].pop(), "a removed constraint lost"),
            (lambda e: ok(e) and e["out"]["pinst"]["parameters"], lambda e: e["out"]["pinst"]["parameters"][0].__setitem__("id", e["out"]["pinst"]["vars"][0]["id"]), "parameter id collides with a variable"),
        ]),
        ("log_encode", 40, [
            (lambda e: ok(e) and e["out"]["enc"]["terms"], lambda e: e["out"]["enc"]["terms"][-1].__setitem__("c", _bump(e["out"]["enc"]["terms"][-1]["c"])), "last coefficient + 1 (overshoot)"),
        ]),
        ("store", 30, [
            (lambda e: ok(e) and e["in"]["op"] == "build_archive" and e["in"]["layers"],
             lambda e: [f["read"]["content"].pop() for f in e["out"]["post"]["files"] if f["path"] == e["in"]["path"]], "a layer lost from the archive just built"),
            (lambda e: ok(e) and e["in"]["op"] == "load" and e["in"]["pre"]["images"] and e["out"]["post"]["images"][0]["read"].get("content"),
             lambda e: e["out"]["post"]["images"][0]["read"]["content"].reverse() if len(e["out"]["post"]["images"][0]["read"]["content"]) > 1 else e["out"]["post"]["images"][0]["read"]["content"].append(["solution", 99]), "another registry entry changed by a load"),
        ]),
        ("samples", 30, [
            (lambda e: ok(e) and any(g["r"].get("tag") == "ok" and any(c["used"] for c in g["r"]["sol"]["evaluated"]) for g in e["out"]["gets"]),
             lambda e: [c for g in e["out"]["gets"] if g["r"].get("tag") == "ok" for c in g["r"]["sol"]["evaluated"] if c["used"]][0]["used"].pop(),
             "a used id dropped from one extracted sample's constraint"),
        ]),
        ("mps_roundtrip", 30, [
            (lambda e: ok(e) and e["out"]["inst"]["vars"], lambda e: e["out"]["inst"]["vars"][0].__setitem__("bound", [{"lo": [0, 1], "hi": [1, 0]}]), "a bound replaced by the MPS default"),
        ]),
    ]


def selftest(check):
    wd = os.path.join(check.WORK, "selftest")
    shutil.rmtree(wd, ignore_errors=True)
    os.makedirs(wd)
    check.write_schema()
    # ---- (i) + (ii)
    total, found = 0, 0
    for group, n, cs in corruptions():
        inp = os.path.join(wd, f"{group}.in.ndjson")
        obs = os.path.join(wd, f"{group}.obs.ndjson")
        check.harness_gen(group, 7, n, inp)
        check.harness_replay(inp, obs, jobs=2)
        evs = [json.loads(l) for l in open(obs)]
        nev, bad, _, _ = check.judge(obs, wd)
        if bad:
            raise check.ToolError(f"selftest: untouched {group} trace rejected: {bad[0][1]} case {bad[0][0].get('case')}")
        expect = {}
        for pred, mut, desc in cs:
            idx = next((i for i, e in enumerate(evs) if i not in expect and pred(e)), None)
            if idx is None:
                raise check.ToolError(f"selftest: no event for corruption '{desc}' in group {group}")
            mut(evs[idx])
            expect[idx] = desc
        obs2 = os.path.join(wd, f"{group}.corrupt.ndjson")
        with open(obs2, "w") as f:
            for e in evs:
                f.write(json.dumps(e) + "\n")
        nev, bad, _, _ = check.judge(obs2, wd)
        badcases = {json.dumps(b[0], sort_keys=True) for b in bad}
        want = {json.dumps(evs[i], sort_keys=True) for i in expect}
        if badcases != want:
            raise check.ToolError(f"selftest: group {group}: judge rejected {len(badcases)} events, expected exactly the {len(want)} corrupted ones")
        total += len(want)
        found += len(badcases)
    print(f"selftest (i): {found}/{total} corrupted events rejected, all untouched events accepted")
    # ---- (iii) spec mutation
    mut = os.path.join(wd, "spec_mut")
    shutil.copytree(check.SPEC, mut)
    p = os.path.join(mut, "Inst.tla")
    s = open(p).read()
    s2 = s.replace("MapFns(I, F(_)) == [I EXCEPT !.obj = F(@), !.cons = [c \\in DOMAIN @ |-> [@[c] EXCEPT !.f = F(@)]],",
                   "MapFns(I, F(_)) == [I EXCEPT !.obj = F(@), !.cons = [c \\in DOMAIN @ |-> [@[c] EXCEPT !.f = IF c \\in I.active THEN F(@) ELSE @]],")
    if s2 == s:
        raise check.ToolError("selftest: mutation site not found in Inst.tla")
    open(p, "w").write(s2)
    env = dict(os.environ)
    env["JAVA_TOOL_OPTIONS"] = f"-Xss1g -DTLA-Library={mut}:{mut}/gen:{mut}/mc"
    r = subprocess.run(["tlc", "-workers", "8", "-metadir", os.path.join(wd, "md_mut"), "-cleanup", "-noGenerateSpecTE",
                        "-config", "MC_InstSM.cfg", "MC_InstSM.tla"], cwd=os.path.join(mut, "mc"), env=env,
                       stdout=subprocess.PIPE, stderr=subprocess.STDOUT, text=True, timeout=900)
    if "Model checking completed. No error has been found" in r.stdout or "C03" not in r.stdout:
        raise check.ToolError("selftest: the mutated specification (partial evaluation skipping removed constraints) was not caught by MC_InstSM")
    print("selftest (iii): mutated PartialEvaluate (removed constraints skipped) violates C03 in MC_InstSM as required")
    shutil.rmtree(mut, ignore_errors=True)
    # ---- (iv) schema extraction sensitivity
    sys.path.insert(0, os.path.join(ROOT, "tools"))
    import schema_tables
    fake = os.path.join(wd, "repo")
    for sub in ("proto/ommx/v1", "rust/ommx/src", "python/ommx/ommx/v1"):
        os.makedirs(os.path.join(fake, sub))
    for f in os.listdir("/repo/proto/ommx/v1"):
        shutil.copy(os.path.join("/repo/proto/ommx/v1", f), os.path.join(fake, "proto/ommx/v1", f))
    shutil.copy("/repo/rust/ommx/src/ommx.v1.rs", os.path.join(fake, "rust/ommx/src/ommx.v1.rs"))
    for f in os.listdir("/repo/python/ommx/ommx/v1"):
        if f.endswith("_pb2.py"):
            shutil.copy(os.path.join("/repo/python/ommx/ommx/v1", f), os.path.join(fake, "python/ommx/ommx/v1", f))
    def ndiff():
        evs, _ = schema_tables.events(fake)
        return sum(1 for e in evs if not (e["in"]["P"] == e["in"]["R"] == e["in"]["Y"]))
    def npub():
        # tables in which a PUBLISHED field is no longer present unchanged (what JudgeWire!published_kept decides)
        evs, _ = schema_tables.events(fake)
        return sum(1 for e in evs if e["in"]["Pub"] and (not e["in"]["P"] or any(f not in e["in"]["P"][0] for f in e["in"]["Pub"][0])))
    pub0 = npub()
    if ndiff() != 0:
        raise check.ToolError("selftest: schema tables of the working tree differ (see `python3 tools/schema_tables.py /repo`)")
    rs = os.path.join(fake, "rust/ommx/src/ommx.v1.rs")
    s = open(rs).read()
    open(rs, "w").write(s.replace('#[prost(uint64, tag = "1")]\n    pub constraint_id: u64,', '#[prost(uint64, tag = "3")]\n    pub constraint_id: u64,', 1))
    d1 = ndiff()
    open(rs, "w").write(s)
    pr = os.path.join(fake, "proto/ommx/v1/linear.proto")
    s = open(pr).read()
    open(pr, "w").write(s.replace("double constant = 2;", "double constant = 3;"))
    d2 = ndiff()
    if npub() <= pub0:
        raise check.ToolError("selftest: a renumbered published field is not detected against the frozen published schema")
    open(pr, "w").write(s)
    py = os.path.join(fake, "python/ommx/ommx/v1/linear_pb2.py")
    s = open(py).read()
    s2 = s.replace("\\x18\\x02 \\x01(\\x01R\\x08\\x63onstant", "\\x18\\x03 \\x01(\\x01R\\x08\\x63onstant")
    open(py, "w").write(s2)
    d3 = ndiff() if s2 != s else -1
    if d1 < 1 or d2 < 1 or d3 < 1:
        raise check.ToolError(f"selftest: edited tags not detected by the schema tables (rust {d1}, proto {d2}, python {d3})")
    print(f"selftest (iv): edited tag detected in each schema source (rust {d1}, proto {d2}, python {d3} differing tables)")
    shutil.rmtree(wd, ignore_errors=True)
